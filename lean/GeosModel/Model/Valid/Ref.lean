import GeosModel.Base.Kernel
import GeosModel.Model.Relate.Ref
import GeosModel.Model.Valid.NodeTopo
/-!
# Reference evaluator of the OGC / JTS validity rules and of simplicity, on integer geometry

SPEC side of C05.  Every rule is evaluated *literally* with exact predicates (`Kernel.det`, `Kernel.segRel`,
the exact arrangement helpers of Model/Relate/Ref.lean, the half-plane angular order `angLt`/`crossAt` of
NodeTopo.lean — the specification order, not the quadrant code of the C++).  Nothing here follows the
algorithms of `IsValidOp` (no noder, no monotone chains, no point-in-ring short cuts, no touch-graph stack
search); only the *order* in which IsValidOp looks at the rules is taken from it, so that "the first violated
rule" is comparable, and the set of admissible error locations is the set of places where that rule is broken.

Rules (codes are `TopologyValidationError::errorEnum`):
* 10 invalid coordinate — decided on the raw doubles before scaling (`VSeq.bad`);
* 11 ring not closed;  9 too few points (ring < 4, line < 2 distinct consecutive points);
*  5 self-intersection: two segments of the polygonal geometry cross properly, overlap collinearly, or two
     passes of rings through a common node cross (`crossAt`);
*  6 ring self-intersection: two non-adjacent segments of one ring meet (OGC mode; with the
     self-touching-ring flag a non-crossing self-touch is allowed);
*  2 hole outside shell;  3 nested holes;  7 nested shells (interiors of two elements intersect);
*  4 disconnected interior: the number of faces of the ring arrangement that belong to the polygon's interior
     is not one.
Core Lean only.
-/
namespace GeosModel.Valid
open GeosModel.Kernel GeosModel.Relate

/-- a coordinate sequence after exact scaling; `bad` = index of the first non-finite coordinate (decided on the
doubles; such points are stored as `(0,0)`) -/
structure VSeq where
  pts : List Pt
  bad : Option Nat := none
  fin : List Bool := []          -- per-point finiteness (`[]` = all finite); used by the repair contract (C17)
deriving Repr, Inhabited

inductive VG where
  | point (s : VSeq)
  | line (s : VSeq)
  | ring (s : VSeq)
  | polygon (rings : List VSeq)              -- shell :: holes
  | multiPoint (ps : List VSeq)
  | multiLine (ls : List VSeq)
  | multiPolygon (polys : List (List VSeq))
  | collection (gs : List VG)
deriving Inhabited

/-- outcome: `codes = []` means valid; otherwise the admissible error codes and locations -/
structure Verdict where
  codes : List Nat := []
  locs : List HPt := []
  badCoord : Bool := false       -- the location is a non-finite coordinate (code 10)
  ambiguous : Bool := false      -- see `areaIntersections`
deriving Repr, Inhabited

def Verdict.ok : Verdict := {}
def Verdict.valid (v : Verdict) : Bool := v.codes.isEmpty
def Verdict.err (c : Nat) (l : List Pt) : Verdict := { codes := [c], locs := l.map HPt.ofPt }

def eHoleOutsideShell : Nat := 2
def eNestedHoles : Nat := 3
def eDisconnectedInterior : Nat := 4
def eSelfIntersection : Nat := 5
def eRingSelfIntersection : Nat := 6
def eNestedShells : Nat := 7
def eTooFewPoints : Nat := 9
def eInvalidCoordinate : Nat := 10
def eRingNotClosed : Nat := 11

/-! ### structure rules -/

/-- remove consecutive repeated points -/
def dedup : List Pt → List Pt
  | a :: b :: r => if a == b then dedup (b :: r) else a :: dedup (b :: r)
  | l => l

def isClosedSeq (l : List Pt) : Bool :=
  match l.head?, l.getLast? with
  | some a, some b => a == b
  | _, _ => false

def coordRule (seqs : List VSeq) : Option Verdict :=
  match seqs.find? (fun s => s.bad.isSome) with
  | some _ => some { codes := [eInvalidCoordinate], badCoord := true }
  | none => none

def closedRule (rings : List VSeq) : Option Verdict :=
  match rings.find? (fun s => !s.pts.isEmpty && !isClosedSeq s.pts) with
  | some s => some (Verdict.err eRingNotClosed (s.pts.take 1))
  | none => none

def sizeRule (minSize : Nat) (seqs : List VSeq) : Option Verdict :=
  match seqs.find? (fun s => !s.pts.isEmpty && decide ((dedup s.pts).length < minSize)) with
  | some s => some (Verdict.err eTooFewPoints (s.pts.take 1))
  | none => none

/-- first failing rule of a list of lazily evaluated rules -/
def firstOf : List (Unit → Option Verdict) → Verdict
  | [] => Verdict.ok
  | r :: rs => match r () with
    | some v => v
    | none => firstOf rs

/-! ### ring segments -/

/-- a segment of a closed, de-duplicated ring with the context the node rules need -/
structure RSeg where
  pid : Nat      -- polygon (element) index
  rid : Nat      -- ring index, unique over the whole geometry
  k : Nat        -- segment index in its ring
  m : Nat        -- number of segments of its ring
  prev : Pt      -- the ring vertex before `p` (cyclically)
  p : Pt
  q : Pt
deriving Repr, Inhabited

def ringSegsAux (pid rid m : Nat) : Nat → Pt → List Pt → List RSeg
  | k, prev, a :: b :: r => ⟨pid, rid, k, m, prev, a, b⟩ :: ringSegsAux pid rid m (k + 1) a (b :: r)
  | _, _, _ => []

/-- segments of a closed de-duplicated ring `[v0, …, v_{m-1}, v0]` -/
def ringSegs (pid rid : Nat) (ring : List Pt) : List RSeg :=
  let m := ring.length - 1
  let prev0 := (ring.dropLast.getLast?).getD default
  ringSegsAux pid rid m 0 prev0 ring

/-- cyclic adjacency of segment indices in a ring of `m` segments -/
def adjacentIdx (m k l : Nat) : Bool :=
  let d := if k ≥ l then k - l else l - k
  decide (d ≤ 1) || decide (d + 1 ≥ m)

/-- the pass of the ring of `s` through the node `x` that this segment accounts for: the corner `(prev, q)` if `x`
is the start vertex, the straight corner `(p, q)` if `x` is strictly inside, none if `x` is the end vertex
(that pass belongs to the next segment) -/
def RSeg.pass (s : RSeg) (x : Pt) : Option (Pt × Pt) :=
  if x == s.p then some (s.prev, s.q)
  else if x == s.q then none
  else some (s.p, s.q)

/-- common point(s) of two segments that meet: the endpoints of either that lie on the other (one point for a
touch, the two ends of the common part for a collinear overlap) -/
def meetPts (s t : RSeg) : List Pt :=
  (([t.p, t.q].filter (onSegment s.p s.q)) ++ ([s.p, s.q].filter (onSegment t.p t.q))).eraseDups

/-- exact crossing point of two properly crossing segments -/
def properPt (s t : RSeg) : List HPt :=
  (cutParams ⟨s.p, s.q⟩ ⟨t.p, t.q⟩).map fun l => (Seg.at ⟨s.p, s.q⟩ l)

/-- the intersection rule for one unordered pair of distinct ring segments: `none` = allowed -/
def pairRule (flag : Bool) (s t : RSeg) : Option (Nat × List HPt) :=
  match segRel s.p s.q t.p t.q with
  | .disjoint => none
  | .point true => some (eSelfIntersection, properPt s t)
  | .overlap => some (eSelfIntersection, (meetPts s t).map HPt.ofPt)
  | .point false =>
    let sameRing := s.rid == t.rid
    if sameRing && adjacentIdx s.m s.k t.k then none
    else if sameRing && !flag then some (eRingSelfIntersection, (meetPts s t).map HPt.ofPt)
    else
      match meetPts s t with
      | [x] =>
        match s.pass x, t.pass x with
        | some (a0, a1), some (b0, b1) =>
          if crossAt x a0 a1 b0 b1 then some (eSelfIntersection, [HPt.ofPt x]) else none
        | _, _ => none
      | _ => none

def pairsOf {α} : List α → List (α × α)
  | [] => []
  | a :: r => r.map (fun b => (a, b)) ++ pairsOf r

/-- two different rings of one polygon touch in two different points -/
def hasDoubleTouch (segs : List RSeg) : Bool :=
  let touches : List (Nat × Nat × Pt) := (pairsOf segs).flatMap fun (s, t) =>
    if s.pid == t.pid && s.rid != t.rid then
      match segRel s.p s.q t.p t.q with
      | .point false => (meetPts s t).map fun x => (min s.rid t.rid, max s.rid t.rid, x)
      | _ => []
    else []
  (pairsOf touches).any fun (a, b) => a.1 == b.1 && a.2.1 == b.2.1 && a.2.2 != b.2.2

/-- rule 5/6 over all rings of a polygonal geometry.  When several pairs break the rule any of them may be the one
reported, so codes and locations are sets.  `ambiguous`: a double touch is present as well — IsValidOp's scan may
stop at the double touch before it has seen the bad intersection and then reports a later rule; this does not
change the verdict, only the code, and the driver accepts any code in that case. -/
def areaIntersections (flag : Bool) (segs : List RSeg) : Option Verdict :=
  let bad := (pairsOf segs).filterMap fun (s, t) => pairRule flag s t
  if bad.isEmpty then none
  else some { codes := (bad.map (·.1)).eraseDups, locs := bad.flatMap (·.2), ambiguous := hasDoubleTouch segs }

/-! ### containment of rings -/

def ringGeomSegs (ring : List Pt) : List Seg := segsOf ring

/-- midpoints of the pieces into which the segments of `test` are cut by the segments `cutters` -/
def cellMids (test : List Pt) (cutters : List Seg) : List HPt :=
  (ringGeomSegs test).flatMap fun s =>
    let ps := splitParams s cutters []
    (ps.zip ps.tail).map fun (l1, l2) => s.at (Q.mid l1 l2)

/-- strictly inside a ring (even–odd), for a point that is not on the ring -/
def insideRingH (x : HPt) (ring : List Pt) : Bool := inPolyH x [ring]

def onRingH (x : HPt) (ring : List Pt) : Bool := (edges ring).any fun e => onSegH e.1 e.2 x

/-- every piece of `test` lies inside `target` -/
def ringInRing (test target : List Pt) : Bool :=
  (cellMids test (ringGeomSegs target)).all fun x => insideRingH x target

def holesInShell (polys : List (List (List Pt))) : Option Verdict :=
  let bad := polys.flatMap fun rings =>
    match rings with
    | shell :: holes => holes.filter fun h => !h.isEmpty && !ringInRing h shell
    | [] => []
  match bad with
  | [] => none
  | _ => some (Verdict.err eHoleOutsideShell bad.flatten)

def idxPairs {α} (l : List α) : List ((Nat × α) × (Nat × α)) :=
  let il := l.zipIdx.map fun (a, i) => (i, a)
  il.flatMap fun a => (il.filter fun b => a.1 != b.1).map fun b => (a, b)

def holesNotNested (polys : List (List (List Pt))) : Option Verdict :=
  let bad := polys.flatMap fun rings =>
    (idxPairs (rings.drop 1)).filterMap fun ((_, h), (_, g)) =>
      if !h.isEmpty && !g.isEmpty && ringInRing h g then some h else none
  match bad with
  | [] => none
  | _ => some (Verdict.err eNestedHoles bad.flatten)

/-- some piece of the shell of `a` lies in the interior of polygon `b` -/
def shellInPolygon (a b : List (List Pt)) : Bool :=
  match a, b with
  | sa :: _, sb :: hb =>
    !sa.isEmpty && !sb.isEmpty &&
    (cellMids sa (b.flatMap ringGeomSegs)).any fun x =>
      insideRingH x sb && !(hb.any fun h => insideRingH x h || onRingH x h)
  | _, _ => false

def shellsNotNested (polys : List (List (List Pt))) : Option Verdict :=
  let bad := (idxPairs polys).filterMap fun ((_, a), (_, b)) => if shellInPolygon a b then a.head? else none
  match bad with
  | [] => none
  | _ => some (Verdict.err eNestedShells bad.flatten)

/-! ### connected interior: count the interior faces of the ring arrangement -/

abbrev Cell := Pt × Pt

/-- cut every ring segment at the ring vertices lying strictly inside it -/
def cellsOfRings (rings : List (List Pt)) : List Cell :=
  let nodes := rings.flatten.eraseDups
  (rings.flatMap ringGeomSegs).flatMap fun s =>
    let inner := (nodes.filter fun v => v != s.p && v != s.q && onSegment s.p s.q v).mergeSort
      (fun a b => decide (dot s.p s.q a ≤ dot s.p s.q b))
    let chain := s.p :: inner ++ [s.q]
    edges chain

def cellIdx (cells : List Cell) (a b : Pt) : Option Nat :=
  cells.findIdx? fun c => (c.1 == a && c.2 == b) || (c.1 == b && c.2 == a)

/-- connected components of a graph on `0..n-1` by label propagation: the label of a vertex ends as the least
index of its component -/
def propagate (links : List (Nat × Nat)) : Nat → List Nat → List Nat
  | 0, lab => lab
  | fuel + 1, lab =>
    let lab' := links.foldl (fun (l : List Nat) (e : Nat × Nat) =>
      let a := l.getD e.1 0; let b := l.getD e.2 0
      let m := min a b
      (l.set e.1 m).set e.2 m) lab
    if lab' == lab then lab else propagate links fuel lab'

def componentCount (n : Nat) (links : List (Nat × Nat)) : Nat :=
  ((propagate links n (List.range n)).eraseDups).length

/-- the directions (other cell ends) at a node, in counter-clockwise order -/
def nodeEnds (cells : List Cell) (n : Pt) : List Pt :=
  let ends := cells.filterMap fun c => if c.1 == n then some c.2 else if c.2 == n then some c.1 else none
  ends.mergeSort (fun a b => !angLt n b a)

def cyclicPairs {α} (l : List α) : List (α × α) :=
  match l with
  | [] => []
  | a :: _ => l.zip (l.drop 1 ++ [a])

/-- number of interior faces minus number of connected components of the ring arrangement, as a pair
`(interiorClasses, components)`; the interior is connected iff they are equal (see the module text of Props/C05) -/
def interiorFaceCount (rings : List (List Pt)) : Nat × Nat :=
  let cells := cellsOfRings rings
  let nodes := rings.flatten.eraseDups
  let sectors : List (Pt × Pt × Pt) := nodes.flatMap fun n => (cyclicPairs (nodeEnds cells n)).map fun (d, e) => (n, d, e)
  let link (s : Pt × Pt × Pt) : Option (Nat × Nat) :=
    match cellIdx cells s.1 s.2.1, cellIdx cells s.1 s.2.2 with
    | some i, some j => some (i, j)
    | _, _ => none
  let allLinks := sectors.filterMap link
  let inLinks := (sectors.filter fun s => sideIn [rings] ⟨s.1, s.2.1⟩ ⟨1, 2⟩ true).filterMap link
  (componentCount cells.length inLinks, componentCount cells.length allLinks)

def touchNodes (rings : List (List Pt)) : List Pt :=
  let cells := cellsOfRings rings
  (rings.flatten.eraseDups).filter fun n => decide ((nodeEnds cells n).length ≥ 4)

def interiorConnected (polys : List (List (List Pt))) : Option Verdict :=
  let bad := polys.filter fun rings =>
    let rs := rings.filter (!·.isEmpty)
    let c := interiorFaceCount rs
    !rs.isEmpty && c.1 != c.2
  match bad with
  | [] => none
  | _ => some (Verdict.err eDisconnectedInterior (bad.flatMap fun rings => touchNodes (rings.filter (!·.isEmpty))))

/-! ### the rule sequences of IsValidOp -/

def polySegs (polys : List (List (List Pt))) : List RSeg :=
  let tagged : List (Nat × List Pt) := polys.zipIdx.flatMap fun (rings, pid) => rings.map fun r => (pid, r)
  tagged.zipIdx.flatMap fun ((pid, r), rid) => if r.isEmpty then [] else ringSegs pid rid r

/-- polygon and multipolygon: `polys` = the elements, each shell :: holes -/
def polygonalRef (flag : Bool) (polys : List (List VSeq)) : Verdict :=
  let nonEmpty := polys.filter fun rings => match rings with | sh :: _ => !sh.pts.isEmpty | [] => false
  if nonEmpty.isEmpty then Verdict.ok else
  -- per element: coordinates, closure, size
  let structural := polys.flatMap fun rings =>
    [fun (_ : Unit) => coordRule rings, fun (_ : Unit) => closedRule rings, fun (_ : Unit) => sizeRule 4 rings]
  let geo : List (List (List Pt)) := nonEmpty.map fun rings => rings.map fun s => dedup s.pts
  firstOf (structural ++ [
    fun (_ : Unit) => areaIntersections flag (polySegs geo),
    fun (_ : Unit) => holesInShell geo,
    fun (_ : Unit) => holesNotNested geo,
    fun (_ : Unit) => if geo.length ≤ 1 then none else shellsNotNested geo,
    fun (_ : Unit) => interiorConnected geo])

/-- `checkRingSimple`: any bad intersection of a LinearRing with itself is reported as ring self-intersection -/
def ringSimpleRule (s : VSeq) : Option Verdict :=
  match areaIntersections false (polySegs [[dedup s.pts]]) with
  | some v => some { v with codes := [eRingSelfIntersection], ambiguous := false }
  | none => none

def ringRef (s : VSeq) : Verdict :=
  if s.pts.isEmpty then Verdict.ok else
  firstOf [
    fun (_ : Unit) => coordRule [s], fun (_ : Unit) => closedRule [s], fun (_ : Unit) => sizeRule 4 [s],
    fun (_ : Unit) => ringSimpleRule s]

def lineRef (s : VSeq) : Verdict :=
  if s.pts.isEmpty then Verdict.ok else firstOf [fun (_ : Unit) => coordRule [s], fun (_ : Unit) => sizeRule 2 [s]]

def pointRef (s : VSeq) : Verdict :=
  if s.pts.isEmpty then Verdict.ok else firstOf [fun (_ : Unit) => coordRule [s]]

mutual
  /-- the reference validity verdict; `flag` = self-touching ring forming a hole is valid -/
  def validRef (flag : Bool) : VG → Verdict
    | .point s => pointRef s
    | .line s => lineRef s
    | .ring s => ringRef s
    | .polygon rings => polygonalRef flag [rings]
    | .multiPoint ps => firstOf (ps.map fun s => fun (_ : Unit) => let v := pointRef s; if v.valid then none else some v)
    | .multiLine ls => firstOf (ls.map fun s => fun (_ : Unit) => let v := lineRef s; if v.valid then none else some v)
    | .multiPolygon polys => polygonalRef flag polys
    | .collection gs => validRefList flag gs
  def validRefList (flag : Bool) : List VG → Verdict
    | [] => Verdict.ok
    | g :: gs => let v := validRef flag g; if v.valid then validRefList flag gs else v
end

/-! ### every broken rule (not only the first one IsValidOp meets)

The property asks that the reported location lie "at a place where the named rule is broken"; it does not ask for the
first rule in IsValidOp's order.  When the structural rules hold, a geometry can break several topological rules at once
(a shell that touches itself so that a hole hanging at the touch point lies outside it: hole outside shell *and*
disconnected interior) and IsValidOp's local shortcuts may meet them in a different order.  `allBroken` evaluates each
topological rule on its own, so that a reported code can be judged against the rule it names. -/

def polygonalAll (flag : Bool) (polys : List (List VSeq)) : List Verdict :=
  let nonEmpty := polys.filter fun rings => match rings with | sh :: _ => !sh.pts.isEmpty | [] => false
  if nonEmpty.isEmpty then [] else
  let structural := polys.flatMap fun rings =>
    [fun (_ : Unit) => coordRule rings, fun (_ : Unit) => closedRule rings, fun (_ : Unit) => sizeRule 4 rings]
  if !(firstOf structural).valid then [] else
  let geo : List (List (List Pt)) := nonEmpty.map fun rings => rings.map fun s => dedup s.pts
  [areaIntersections flag (polySegs geo), holesInShell geo, holesNotNested geo,
   (if geo.length ≤ 1 then none else shellsNotNested geo), interiorConnected geo].filterMap id

mutual
  def allBroken (flag : Bool) : VG → List Verdict
    | .polygon rings => polygonalAll flag [rings]
    | .multiPolygon polys => polygonalAll flag polys
    | .collection gs => allBrokenList flag gs
    | _ => []
  def allBrokenList (flag : Bool) : List VG → List Verdict
    | [] => []
    | g :: gs => allBroken flag g ++ allBrokenList flag gs
end

/-! ### simplicity -/

structure LSeg where
  lid : Nat      -- line index
  k : Nat        -- segment index
  n : Nat        -- number of segments of the line
  closed : Bool
  p : Pt
  q : Pt
deriving Repr, Inhabited

def lineSegsAux (lid n : Nat) (closed : Bool) : Nat → List Pt → List LSeg
  | k, a :: b :: r => ⟨lid, k, n, closed, a, b⟩ :: lineSegsAux lid n closed (k + 1) (b :: r)
  | _, _ => []

def lineSegs (lid : Nat) (l : List Pt) : List LSeg :=
  let d := dedup l
  lineSegsAux lid (d.length - 1) (isClosedSeq d) 0 d

/-- parameter (vertex index) of the point `x` on the line of `s`, if `x` is a vertex of `s` -/
def LSeg.vertexAt (s : LSeg) (x : Pt) : Option Nat :=
  if x == s.p then some s.k else if x == s.q then some (s.k + 1) else none

/-- may these two distinct segments of a linear geometry meet the way they do? -/
def simplePair (s t : LSeg) : Bool :=
  match segRel s.p s.q t.p t.q with
  | .disjoint => true
  | .point true => false
  | .overlap => false
  | .point false =>
    match (([t.p, t.q].filter (onSegment s.p s.q)) ++ ([s.p, s.q].filter (onSegment t.p t.q))).eraseDups with
    | [x] =>
      match s.vertexAt x, t.vertexAt x with
      | some u, some v =>
        if s.lid == t.lid then
          u == v || (u == 0 && v == s.n) || (v == 0 && u == s.n)
        else
          (u == 0 || u == s.n) && (v == 0 || v == t.n) && !s.closed && !t.closed
      | _, _ => false
    | _ => false

/-- a set of lines taken together is simple -/
def linesSimple (lines : List (List Pt)) : Bool :=
  let segs := lines.zipIdx.flatMap fun (l, i) => lineSegs i l
  (pairsOf segs).all fun (s, t) => simplePair s t

def noRepeat : List Pt → Bool
  | [] => true
  | a :: r => !r.contains a && noRepeat r

mutual
  def simpleRef : VG → Bool
    | .point _ => true
    | .line s => linesSimple [s.pts]
    | .ring s => linesSimple [s.pts]
    | .polygon rings => rings.all fun r => linesSimple [r.pts]
    | .multiPoint ps => noRepeat (ps.flatMap fun s => s.pts.take 1)
    | .multiLine ls => linesSimple (ls.map (·.pts))
    | .multiPolygon polys => polys.all fun rings => rings.all fun r => linesSimple [r.pts]
    | .collection gs => simpleRefList gs
  def simpleRefList : List VG → Bool
    | [] => true
    | g :: gs => simpleRef g && simpleRefList gs
end

/-- `Curve::isRing`: closed and simple (false for anything that is not a line or ring) -/
def isRingRef : VG → Bool
  | .line s | .ring s => isClosedSeq s.pts && linesSimple [s.pts]
  | _ => false

end GeosModel.Valid
