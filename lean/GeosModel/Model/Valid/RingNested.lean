import GeosModel.Model.Valid.NodeTopo
import GeosModel.Model.Kernel.RayCount
/-!
# `PolygonTopologyAnalyzer::isRingNested` and its helpers over `Int`, branch by branch

Source: /repo/src/operation/valid/PolygonTopologyAnalyzer.cpp (`isRingNested`, `findNonEqualVertex`,
`isIncidentSegmentInRing`, `intersectingSegIndex`, `findRingVertexPrev`, `findRingVertexNext`, `ringIndexPrev`,
`ringIndexNext`), /repo/src/algorithm/Orientation.cpp (`isCCWArea`), /repo/src/algorithm/Area.cpp
(`ofRingSigned(const CoordinateSequence*)`, the variant that shifts x by the first vertex).

`isRingNested(test, target)` is the one decision behind four rules of `IsValidOp`: hole inside shell
(`findHoleOutsideShellPoint`), nested holes (`IndexedNestedHoleTester`), nested shells and shell-in-hole-of-another-element
(`IndexedNestedPolygonTester::findIncidentSegmentNestedPoint`).  It looks at ONE vertex of the test ring (its start): a
point-in-ring test, and when the start vertex lies on the target ring, the node topology of the first test segment
against the corner of the target ring at that point (`PolygonNodeTopology::isInteriorSegment`), with the corner arms
exchanged according to the orientation of the target ring (`Orientation::isCCWArea`).

`PointLocation::locateInRing` is `RayCount.locatePointInRing` (C07's model, proved equal to the even–odd specification
`Kernel.locateInRing` for closed rings); `PointLocation::isOnSegment` is `RayCount.isOnSegment`.
On grid inputs all differences, products and the shoelace sum are exact in binary64 (|sum| < 2^53 for the sizes used),
so `Int` is the faithful carrier.  The `while` loops get a fuel argument equal to the ring size; the C++ loops do not
terminate on a ring whose points are all equal (never reached: such rings fail the size rule first).  Core Lean only.
-/
namespace GeosModel.Valid
open GeosModel.Kernel GeosModel.RayCount

/-- the loop of `Area::ofRingSigned(const CoordinateSequence*)`: Σ (xᵢ − x₀)(yᵢ₋₁ − yᵢ₊₁) over the inner vertices -/
def signedAux (x0 : Int) : List Pt → Int
  | a :: b :: c :: r => (b.x - x0) * (a.y - c.y) + signedAux x0 (b :: c :: r)
  | _ => 0

/-- twice `Area::ofRingSigned(ring)` (positive for a clockwise ring) -/
def ofRingSigned2 (ring : List Pt) : Int :=
  match ring with
  | [] => 0
  | p :: _ => signedAux p.x ring

/-- `Orientation::isCCWArea` -/
def isCCWArea (ring : List Pt) : Bool := decide (ofRingSigned2 ring < 0)

/-- `PolygonTopologyAnalyzer::findNonEqualVertex(ring, p)`: the first vertex after the start that differs from `p`
(searching indices `1 … n−2`), else the last vertex -/
def findNonEqualVertex (ring : List Pt) (p : Pt) : Pt :=
  match ((ring.drop 1).dropLast).find? (fun q => q != p) with
  | some q => q
  | none => (ring.getLast?).getD p

/-- `PolygonTopologyAnalyzer::intersectingSegIndex`: index of the first segment that contains `pt`, advanced by one when
`pt` is that segment's end vertex; `none` = the C++ throws -/
def intersectingSegIndex (pt : Pt) : Nat → List Pt → Option Nat
  | i, a :: b :: r => if isOnSegment pt a b then some (if pt == b then i + 1 else i) else intersectingSegIndex pt (i + 1) (b :: r)
  | _, _ => none

/-- `ringIndexPrev` for a ring of `n` points -/
def ringIndexPrev (n i : Nat) : Nat := if i = 0 then n - 2 else i - 1

/-- `ringIndexNext` for a ring of `n` points -/
def ringIndexNext (n i : Nat) : Nat := if i ≥ n - 2 then 0 else i + 1

/-- the loop of `findRingVertexPrev` -/
def walkPrev (ring : List Pt) (node : Pt) : Nat → Nat → Nat
  | 0, i => i
  | fuel + 1, i => if ring.getD i default == node then walkPrev ring node fuel (ringIndexPrev ring.length i) else i

/-- the loop of `findRingVertexNext` -/
def walkNext (ring : List Pt) (node : Pt) : Nat → Nat → Nat
  | 0, i => i
  | fuel + 1, i => if ring.getD i default == node then walkNext ring node fuel (ringIndexNext ring.length i) else i

/-- `findRingVertexPrev(ringPts, index, node)` -/
def findRingVertexPrev (ring : List Pt) (index : Nat) (node : Pt) : Pt :=
  ring.getD (walkPrev ring node ring.length index) default

/-- `findRingVertexNext(ringPts, index, node)` -/
def findRingVertexNext (ring : List Pt) (index : Nat) (node : Pt) : Pt :=
  ring.getD (walkNext ring node ring.length (index + 1)) default

/-- the corner `(rPrev, rNext)` of the target ring at the point `p0` lying on it, as handed to `isInteriorSegment`
(already exchanged for a counter-clockwise ring) -/
def cornerAt (p0 : Pt) (ring : List Pt) : Option (Pt × Pt) :=
  match intersectingSegIndex p0 0 ring with
  | none => none
  | some index =>
    let rPrev := findRingVertexPrev ring index p0
    let rNext := findRingVertexNext ring index p0
    let isInteriorOnRight := !isCCWArea ring
    if !isInteriorOnRight then some (rNext, rPrev) else some (rPrev, rNext)

/-- `PolygonTopologyAnalyzer::isIncidentSegmentInRing(p0, p1, ringPts)`; `none` = the C++ throws -/
def isIncidentSegmentInRing (p0 p1 : Pt) (ring : List Pt) : Option Bool :=
  (cornerAt p0 ring).map fun c => isInteriorSegment p0 c.1 c.2 p1

/-- `PolygonTopologyAnalyzer::isRingNested(test, target)`; `none` = the C++ throws -/
def isRingNested (test target : List Pt) : Option Bool :=
  match test with
  | [] => none
  | p0 :: _ =>
    match locatePointInRing p0 target with
    | .exterior => some false
    | .interior => some true
    | .boundary => isIncidentSegmentInRing p0 (findNonEqualVertex test p0) target

end GeosModel.Valid
