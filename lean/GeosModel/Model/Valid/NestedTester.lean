import GeosModel.Model.Valid.RingNested
import GeosModel.Model.Kernel.PolyLocate
/-!
# `IndexedNestedPolygonTester` (the "nested shells" rule of a MultiPolygon) over `Int`, branch by branch

Source: /repo/src/operation/valid/IndexedNestedPolygonTester.cpp (`isNested`, `findNestedPoint`,
`findIncidentSegmentNestedPoint`), /repo/src/geom/Envelope.cpp (`covers(const Envelope&)`).

`IsValidOp::checkShellsNotNested` asks, for every element of a MultiPolygon and every OTHER element whose envelope covers
it, whether the shell of the first lies in the interior of the second: two point locations (first and second shell vertex
against `IndexedPointInAreaLocator` of the candidate, any conclusive answer ends it), and when both vertices lie on the
candidate's boundary the incident-segment path: the shell must be nested in the candidate's shell
(`PolygonTopologyAnalyzer::isRingNested`) and must NOT be nested in ANY of the candidate's holes — every hole is looked at,
the envelope test only saves the ring test for a hole that cannot contain the shell.

A polygon is `shell :: holes` (vertex lists); `Polygon::getEnvelopeInternal` is the shell's envelope.
`IndexedPointInAreaLocator::locate` is `PolyLocate.locateIndexed` (C07's model, all segments of all rings fed to one
ray-crossing counter); `isRingNested` is the model of Model/Valid/RingNested.lean (`none` = the C++ throws, propagated).
The spatial index only pre-selects candidates (`index.query` returns the elements whose envelope intersects; the code then
requires `covers`), in an order this model does not fix: `isNested` takes the candidates in element order, and the
theorems of Props/C05 state that the boolean answer does not depend on that order.  Core Lean only.
-/
namespace GeosModel.Valid
open GeosModel.Kernel GeosModel.RayCount

/-- a non-null `Envelope` -/
structure Env where
  minx : Int
  maxx : Int
  miny : Int
  maxy : Int
deriving Repr, DecidableEq, Inhabited

/-- `expandToInclude` over the vertices; `none` = the null envelope (all NaN) of an empty sequence -/
def envOf : List Pt → Option Env
  | [] => none
  | p :: r => some (r.foldl (fun e q => ⟨min e.minx q.x, max e.maxx q.x, min e.miny q.y, max e.maxy q.y⟩) ⟨p.x, p.x, p.y, p.y⟩)

/-- `a.covers(b)`: four `isgreaterequal` / `islessequal` comparisons, all false when either envelope is null (NaN) -/
def Env.covers : Option Env → Option Env → Bool
  | some a, some b => decide (b.minx ≥ a.minx) && decide (b.maxx ≤ a.maxx) && decide (b.miny ≥ a.miny) && decide (b.maxy ≤ a.maxy)
  | _, _ => false

/-- `outer->getEnvelopeInternal()->covers(inner->getEnvelopeInternal())` for two rings -/
def envCovers (outer inner : List Pt) : Bool := Env.covers (envOf outer) (envOf inner)

abbrev Poly := List (List Pt)

def Poly.shell (p : Poly) : List Pt := p.headD []

/-- the loop over the holes in `findIncidentSegmentNestedPoint`: `some true` = the loop returned (the shell lies in a hole),
`some false` = the loop ran to its end, `none` = `isRingNested` threw -/
def holesLoop (shell : List Pt) : List (List Pt) → Option Bool
  | [] => some false
  | hole :: hs =>
    if envCovers hole shell then
      match isRingNested shell hole with
      | none => none
      | some true => some true
      | some false => holesLoop shell hs
    else holesLoop shell hs

/-- `findIncidentSegmentNestedPoint(shell, poly, coordNested)`: `some (some p)` = true with `coordNested = p`,
`some none` = false, `none` = throws -/
def findIncidentSegmentNestedPoint (shell : List Pt) (poly : Poly) : Option (Option Pt) :=
  match poly with
  | [] => some none
  | polyShell :: holes =>
    if polyShell.isEmpty then some none
    else
      match isRingNested shell polyShell with
      | none => none
      | some false => some none
      | some true =>
        match holesLoop shell holes with
        | none => none
        | some true => some none
        | some false => some shell.head?

/-- `findNestedPoint(shell, possibleOuterPoly, locator, coordNested)` (a shell has at least two points when this is reached) -/
def findNestedPoint (shell : List Pt) (poly : Poly) : Option (Option Pt) :=
  match shell with
  | shellPt0 :: shellPt1 :: _ =>
    match PolyLocate.locateIndexed shellPt0 poly with
    | .exterior => some none
    | .interior => some (some shellPt0)
    | .boundary =>
      match PolyLocate.locateIndexed shellPt1 poly with
      | .exterior => some none
      | .interior => some (some shellPt1)
      | .boundary => findIncidentSegmentNestedPoint shell poly
  | _ => none

/-- the body of the inner loop of `isNested` for the element `a` and one candidate `b` (a different element):
`none` = the candidate is skipped by the envelope test -/
def candidate (a b : Poly) : Option (Option (Option Pt)) :=
  if envCovers b.shell a.shell then some (findNestedPoint a.shell b) else none

/-- the inner loop over the candidates of one element: first throw or first nested point ends it -/
def firstHit : List (Option (Option Pt)) → Option (Option Pt)
  | [] => some none
  | none :: _ => none
  | some (some p) :: _ => some (some p)
  | some none :: r => firstHit r

/-- the outer loop of `isNested`: `pre` = the elements before the current one; every other element is a candidate -/
def isNestedLoop (pre : List Poly) : List Poly → Option (Option Pt)
  | [] => some none
  | a :: post =>
    match firstHit ((pre ++ post).filterMap (candidate a)) with
    | none => none
    | some (some p) => some (some p)
    | some none => isNestedLoop (pre ++ [a]) post

/-- `IndexedNestedPolygonTester(multiPoly).isNested()` with `getNestedPoint()`: `some (some p)` = nested at `p`,
`some none` = not nested, `none` = throws -/
def isNested (polys : List Poly) : Option (Option Pt) := isNestedLoop [] polys

end GeosModel.Valid
