import GeosModel.Base.Kernel
/-!
# `algorithm::PolygonNodeTopology` and `geom::Quadrant::quadrant` over `Int`, branch by branch

Source: /repo/src/algorithm/PolygonNodeTopology.cpp, /repo/include/geos/geom/Quadrant.h.
The C++ works on doubles; on grid inputs every difference and the orientation predicate
(`Orientation::index`, exact by C07) are exact, so `Int` is the faithful carrier.
`Orientation::index(origin, q, p)` is `Kernel.orient origin q p`.
`Quadrant::quadrant(0,0)` throws in C++; callers never pass a zero vector (repeated points are removed
before the analysis) — here it falls into the `NE` branch like every `dx ≥ 0 ∧ dy ≥ 0`.

Also the *specification* of the counter-clockwise angular order used by the reference evaluator and by the
theorems of Props/C05: `upper`/`angLt` (half-plane then cross product — deliberately a different decomposition
from the four quadrants of the C++) and the cyclic "strictly inside the counter-clockwise sweep" relation `cyc`.
Core Lean only.
-/
namespace GeosModel.Valid
open GeosModel.Kernel

/-! ### the C++ functions -/

/-- `Quadrant::quadrant(dx, dy)`: NE = 0, NW = 1, SW = 2, SE = 3 -/
def quadrantD (dx dy : Int) : Nat :=
  if dx ≥ 0 then (if dy ≥ 0 then 0 else 3) else (if dy ≥ 0 then 1 else 2)

/-- `PolygonNodeTopology::quadrant(origin, p)` -/
def quadrant (o p : Pt) : Nat := quadrantD (p.x - o.x) (p.y - o.y)

/-- `PolygonNodeTopology::compareAngle` -/
def compareAngle (o p q : Pt) : Int :=
  let quadrantP := quadrant o p
  let quadrantQ := quadrant o q
  if quadrantP > quadrantQ then 1
  else if quadrantP < quadrantQ then -1
  else
    let orient := orient o q p
    if orient == 1 then 1 else if orient == -1 then -1 else 0

/-- `PolygonNodeTopology::isAngleGreater` -/
def isAngleGreater (o p q : Pt) : Bool :=
  let quadrantP := quadrant o p
  let quadrantQ := quadrant o q
  if quadrantP > quadrantQ then true
  else if quadrantP < quadrantQ then false
  else orient o q p == 1

/-- `PolygonNodeTopology::isBetween` -/
def isBetween (o p e0 e1 : Pt) : Bool :=
  let isGreater0 := isAngleGreater o p e0
  if !isGreater0 then false
  else
    let isGreater1 := isAngleGreater o p e1
    !isGreater1

/-- `PolygonNodeTopology::compareBetween` -/
def compareBetween (o p e0 e1 : Pt) : Int :=
  let comp0 := compareAngle o p e0
  if comp0 == 0 then 0
  else
    let comp1 := compareAngle o p e1
    if comp1 == 0 then 0
    else if comp0 > 0 && comp1 < 0 then 1
    else -1

/-- `PolygonNodeTopology::isCrossing` -/
def isCrossing (nodePt a0 a1 b0 b1 : Pt) : Bool :=
  let swap := isAngleGreater nodePt a0 a1
  let aLo := if swap then a1 else a0
  let aHi := if swap then a0 else a1
  let compBetween0 := compareBetween nodePt b0 aLo aHi
  if compBetween0 == 0 then false
  else
    let compBetween1 := compareBetween nodePt b1 aLo aHi
    if compBetween1 == 0 then false
    else compBetween0 != compBetween1

/-- `PolygonNodeTopology::isInteriorSegment` -/
def isInteriorSegment (nodePt a0 a1 b : Pt) : Bool :=
  let swap := isAngleGreater nodePt a0 a1
  let aLo := if swap then a1 else a0
  let aHi := if swap then a0 else a1
  let isInteriorBetween := !swap
  let bBetween := isBetween nodePt b aLo aHi
  (bBetween && isInteriorBetween) || (!bBetween && !isInteriorBetween)

/-! ### specification of the angular order -/

/-- the direction `o → p` has angle in `[0°, 180°)` -/
def upper (o p : Pt) : Bool := decide (p.y > o.y) || (decide (p.y = o.y) && decide (p.x > o.x))

/-- strict counter-clockwise-from-the-positive-x-axis order of the directions `o → p`, `o → q`:
first the half turn, then the sign of the cross product (`Kernel.det o p q > 0`: `q` is to the left of `o → p`) -/
def angLt (o p q : Pt) : Bool :=
  (upper o p && !upper o q) || (upper o p == upper o q && decide (det o p q > 0))

/-- the two directions coincide (same ray from `o`) -/
def sameDir (o p q : Pt) : Bool := decide (det o p q = 0) && decide (dot o p q > 0)

/-- the direction `o → d` lies strictly inside the counter-clockwise sweep that starts at direction `o → u`
and ends at direction `o → v` (the open wedge from `u` to `v`; empty when `u` and `v` are the same direction) -/
def cyc (o u d v : Pt) : Bool :=
  (angLt o u d && angLt o d v) || (angLt o d v && angLt o v u) || (angLt o v u && angLt o u d)

/-- specification of "the passes `a0 → o → a1` and `b0 → o → b1` cross at `o`": `b0` and `b1` lie strictly in
different open wedges of the corner `(a0, a1)` -/
def crossAt (o a0 a1 b0 b1 : Pt) : Bool :=
  (cyc o a0 b0 a1 && cyc o a1 b1 a0) || (cyc o a1 b0 a0 && cyc o a0 b1 a1)

/-- exact rational pseudo-angle of a non-zero vector, as numerator / denominator of a number in `[0, 4)`:
quadrant index plus the fraction of the quadrant swept (in the `L1` parametrisation) -/
def pseudoAngle (dx dy : Int) : Int × Int :=
  if dx ≥ 0 then
    (if dy ≥ 0 then (dy, dx + dy)                               -- [0,1]
     else (3 * (dx - dy) + dx, dx - dy))                        -- [3,4)
  else
    (if dy ≥ 0 then ((-dx + dy) + (-dx), -dx + dy)              -- (1,2]
     else (2 * (-dx - dy) + (-dy), -dx - dy))                   -- (2,3)

end GeosModel.Valid
