import GeosModel.Model.Valid.Ref
/-!
# `IsSimpleOp::NonSimpleIntersectionFinder::findIntersection` over `Int`, branch by branch

Source: /repo/src/operation/valid/IsSimpleOp.cpp (`findIntersection`, `isIntersectionEndpoint`, `intersectionVertexIndex`).  This is the
decision `IsSimpleOp` takes for every pair of line segments the noder presents: no intersection / an intersection interior to a segment
or a collinear overlap (non-simple) / adjacent segments of one line / a touch at vertices, which is allowed only at end points of the
lines — and, for two different lines under the Mod-2 boundary rule (`isClosedEndpointsInInterior`), only if neither line is closed.

`LineIntersector` is represented by the exact classification `Kernel.segRel`: `hasIntersection` = not `.disjoint`,
`getIntersectionNum() >= 2` = `.overlap`; for a single intersection point `x` (`getIntersection(0)`), `isInteriorIntersection()` is
"`x` is not an end point of both segments".  A segment carries what the C++ reads from its `SegmentString`: identity (`lid`), index
`k`, the number `n` of segments (`size() - 1`), `isClosed()` — the fields of `LSeg` (Model/Valid/Ref.lean).  Core Lean only.
-/
namespace GeosModel.Valid
open GeosModel.Kernel

/-- the common end points of two segments that meet (what `Ref.simplePair` inspects) -/
def LSeg.meet (s t : LSeg) : List Pt :=
  (([t.p, t.q].filter (onSegment s.p s.q)) ++ ([s.p, s.q].filter (onSegment t.p t.q))).eraseDups

/-- `intersectionVertexIndex(li, segmentIndex)`: 0 if the intersection point is the segment's first end point, else 1 -/
def intersectionVertexIndex (s : LSeg) (x : Pt) : Nat := if x == s.p then 0 else 1

/-- `isIntersectionEndpoint(ss, ssIndex, li, liSegmentIndex)`: the intersection vertex is the first or the last point of its line -/
def isIntersectionEndpoint (s : LSeg) (x : Pt) : Bool :=
  if intersectionVertexIndex s x == 0 then s.k == 0 else s.k + 2 == s.n + 1

/-- `li.isInteriorIntersection()` for the single intersection point `x`: interior to at least one of the segments -/
def isInteriorIntersection (s t : LSeg) (x : Pt) : Bool :=
  !(x == s.p || x == s.q) || !(x == t.p || x == t.q)

/-- `findIntersection(ss0, segIndex0, ss1, segIndex1, p00, p01, p10, p11)`; `cei` = `isClosedEndpointsInInterior` -/
def findIntersection (cei : Bool) (s t : LSeg) : Bool :=
  match segRel s.p s.q t.p t.q with
  | .disjoint => false
  | .point true => true
  | .overlap => true
  | .point false =>
    match s.meet t with
    | [x] =>
      if isInteriorIntersection s t x then true
      else
        let segIndexDiff := if t.k > s.k then t.k - s.k else s.k - t.k
        let isSameSegString := s.lid == t.lid
        let isAdjacentSegment := isSameSegString && decide (segIndexDiff ≤ 1)
        if isAdjacentSegment then false
        else
          let isIntersectionEndpt0 := isIntersectionEndpoint s x
          let isIntersectionEndpt1 := isIntersectionEndpoint t x
          let hasInteriorVertexInt := !(isIntersectionEndpt0 && isIntersectionEndpt1)
          if hasInteriorVertexInt then true
          else if cei && !isSameSegString then s.closed || t.closed
          else false
    | _ => true

/-- a line string as the C++ sees it: identity (`ss0 == ss1` is equality of `lid`), `isClosed()`, its points -/
structure LineStr where
  lid : Nat
  closed : Bool
  pts : List Pt
deriving Repr, Inhabited

/-- segment `k` of a line string with what `findIntersection` reads -/
def LineStr.seg (l : LineStr) (k : Nat) : LSeg :=
  ⟨l.lid, k, l.pts.length - 1, l.closed, l.pts.getD k default, l.pts.getD (k + 1) default⟩

end GeosModel.Valid
