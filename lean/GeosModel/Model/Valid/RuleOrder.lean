/-!
# The order in which `IsValidOp` looks at the rules, and its early exits

Source: /repo/src/operation/valid/IsValidOp.cpp (`isValidGeometry`, `isValid(const Point* / LineString* / LinearRing* / Polygon* /
MultiPolygon* / GeometryCollection*)`).  Every `isValid` overload is a sequence of `checkX(g); if (hasInvalidError()) return false;`:
the checks run in a fixed order, each from a clean error state, and the first one that logs an error ends the function.  That is
`firstErr` of the list of checks.  What each check decides is kept abstract here (a function from the geometry to an optional
error); the reference evaluator `Model/Valid/Ref.lean` instantiates them with the literal OGC rules (`Valid.firstOf` is `firstErr`),
the translator tie (`Props/C05GenOrder.lean`) proves that the regenerated C++ follows exactly these lists.
Core Lean only.
-/
namespace GeosModel.Valid

/-- the first error among lazily evaluated rules -/
def firstErr {E : Type} : List (Unit → Option E) → Option E
  | [] => none
  | r :: rs => match r () with
    | some e => some e
    | none => firstErr rs

/-- what an `isValid` overload returns and leaves in `validErr` -/
def runRules {E : Type} (rs : List (Unit → Option E)) : Bool × Option E := ((firstErr rs).isNone, firstErr rs)

/-- `isValid(const Point*)` -/
def pointOrder {E : Type} (coords : Option E) : List (Unit → Option E) := [fun _ => coords]

/-- `isValid(const LineString*)` -/
def lineOrder {E : Type} (coords tooFew : Unit → Option E) : List (Unit → Option E) := [coords, tooFew]

/-- `isValid(const LinearRing*)` -/
def ringOrder {E : Type} (coords closed size simple : Unit → Option E) : List (Unit → Option E) := [coords, closed, size, simple]

/-- `isValid(const Polygon*)` -/
def polygonOrder {E : Type} (coords closed size area holesInShell holesNotNested connected : Unit → Option E) : List (Unit → Option E) :=
  [coords, closed, size, area, holesInShell, holesNotNested, connected]

/-- `isValid(const MultiPolygon*)` for `n` elements: the three structural checks element by element, the intersection check of the
whole geometry, hole-in-shell element by element, nested holes element by element, nested shells, connected interior -/
def multiPolygonOrder {E : Type} (n : Nat) (coords closed size : Nat → Option E) (area : Unit → Option E)
    (holesInShell holesNotNested : Nat → Option E) (shells connected : Unit → Option E) : List (Unit → Option E) :=
  ((List.range n).flatMap fun i => [fun _ => coords i, fun _ => closed i, fun _ => size i]) ++ [area] ++
    (List.range n).map (fun i _ => holesInShell i) ++ (List.range n).map (fun i _ => holesNotNested i) ++ [shells, connected]

/-- `isValid(const GeometryCollection*)` (also MultiLineString): the elements in order, the first invalid one ends it -/
def collectionOrder {E : Type} (n : Nat) (elem : Nat → Option E) : List (Unit → Option E) := (List.range n).map fun i _ => elem i

end GeosModel.Valid
