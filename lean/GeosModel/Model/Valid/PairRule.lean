import GeosModel.Model.Valid.Ref
/-!
# `PolygonIntersectionAnalyzer::findInvalidIntersection` over `Int`, branch by branch

Source: /repo/src/operation/valid/PolygonIntersectionAnalyzer.cpp (`findInvalidIntersection`, `isAdjacentInRing`,
`prevCoordinateInRing`).  This is the decision `IsValidOp` takes for every pair of ring segments that the noder presents:
no intersection / proper or collinear intersection (self-intersection) / adjacent segments / same ring touching itself
(ring self-intersection in OGC mode) / a touch at a vertex, where the two passes through the node must not cross
(`PolygonNodeTopology::isCrossing`).

`LineIntersector::computeIntersection` is represented by the exact classification `Kernel.segRel` (that the C++
intersector classifies exactly on the grid is C02's subject): `hasIntersection` = not `.disjoint`, `isProper` = `.point true`,
`getIntersectionNum() >= 2` = `.overlap`; for a single non-proper intersection `getIntersection(0)` is the common endpoint
(`meetPts`).  A segment carries what the C++ reads from its `SegmentString`: the ring identity (`ss0 == ss1` is
`s.rid == t.rid`), its index `k`, the number `m` of segments of the ring string (`size() - 1`) and the previous vertex
(`prevCoordinateInRing`) — the fields of `RSeg` (Model/Valid/Ref.lean).  The bookkeeping of touches for the
connected-interior test (`addSelfTouch`, `addDoubleTouch`) does not influence the returned code and is not modelled here.
Core Lean only.
-/
namespace GeosModel.Valid
open GeosModel.Kernel

/-- `isAdjacentInRing(ringSS, segIndex0, segIndex1)` for a ring string of `m` segments (`m + 1` points) -/
def isAdjacentInRing (m i0 i1 : Nat) : Bool :=
  let delta := if i0 > i1 then i0 - i1 else i1 - i0
  if delta ≤ 1 then true
  else if delta ≥ (m + 1) - 2 then true
  else false

/-- `findInvalidIntersection(ss0, segIndex0, ss1, segIndex1)`: `none` = `oNoInvalidIntersection`, else the error code;
`flag` = `isInvertedRingValid` -/
def findInvalidIntersection (flag : Bool) (s t : RSeg) : Option Nat :=
  match segRel s.p s.q t.p t.q with
  | .disjoint => none
  | .point true => some eSelfIntersection
  | .overlap => some eSelfIntersection
  | .point false =>
    let isSameSegString := s.rid == t.rid
    let isAdjacentSegments := isSameSegString && isAdjacentInRing s.m s.k t.k
    if isAdjacentSegments then none
    else if isSameSegString && !flag then some eRingSelfIntersection
    else
      match meetPts s t with
      | [intPt] =>
        if intPt == s.q || intPt == t.q then none
        else
          let e00 := if intPt == s.p then s.prev else s.p
          let e01 := s.q
          let e10 := if intPt == t.p then t.prev else t.p
          let e11 := t.q
          if isCrossing intPt e00 e01 e10 e11 then some eSelfIntersection else none
      | _ => none

/-! ### the analyzer's state over the pairs it is shown -/

/-- a ring string as the C++ sees it: identity (`ss0 == ss1` is equality of `rid`) and its points -/
structure RingStr where
  rid : Nat
  pts : List Pt
deriving Repr, Inhabited

/-- segment `k` of a ring string with what `findInvalidIntersection` reads: `getCoordinate(k)`, `getCoordinate(k + 1)`,
`size() - 1` segments, and `prevCoordinateInRing(ss, k)` (`size() - 2` for `k = 0`) -/
def RingStr.seg (r : RingStr) (k : Nat) : RSeg :=
  ⟨0, r.rid, k, r.pts.length - 1, r.pts.getD (if k = 0 then r.pts.length - 2 else k - 1) default, r.pts.getD k default,
   r.pts.getD (k + 1) default⟩

/-- the C++ return value: `oNoInvalidIntersection` = −1, else the error code -/
def codeInt : Option Nat → Int
  | none => -1
  | some c => c

/-- `PolygonIntersectionAnalyzer::processIntersections`: the member `invalidCode` after the analyzer has been shown the pair
(`none` = `oNoInvalidIntersection`); a segment is not tested with itself, a valid pair leaves the recorded code alone, an
invalid pair overwrites it -/
def processIntersections (flag : Bool) (invalidCode : Option Nat) (s t : RSeg) : Option Nat :=
  if s.rid == t.rid && s.k == t.k then invalidCode
  else
    match findInvalidIntersection flag s t with
    | some c => some c
    | none => invalidCode

/-- the analyzer after a sequence of pairs (in the order the noder presents them), starting from "no invalid intersection" -/
def processAll (flag : Bool) (pairs : List (RSeg × RSeg)) : Option Nat :=
  pairs.foldl (fun code st => processIntersections flag code st.1 st.2) none

end GeosModel.Valid
