/-!
# Interrupt protocol (src/util/Interrupt.cpp, capi `execute`, `GEOS_init_r`) — executable model

`Interrupt.cpp` keeps two process-wide variables

    bool requested = false;
    Interrupt::Callback* callback = nullptr;

and five tiny functions `request / cancel / check / registerCallback / process`.  A long-running
operation is abstracted to what can be *observed* of it at this interface: the number `polls` of
`GEOS_CHECK_FOR_INTERRUPTS()` it executes when it is not interrupted and its uninterrupted result
(`result`, an opaque token).  Both are measured on the implementation by the harness; the model says
what the protocol then does for every callback behaviour, every initial state and every poll index.

A callback is a C function `void cb(void)`; what matters of it is which of `Interrupt::request()`,
`Interrupt::cancel()` or nothing it calls at its i-th invocation (1-based), hence `Cb = Nat → Act`.
Core Lean only.
-/
namespace GeosModel.Interrupt

/-- what a callback does to the interrupt flag when invoked -/
inductive Act where
  | nothing
  | request
  | cancel
deriving DecidableEq, Repr, Inhabited

/-- behaviour of a callback: action at its i-th invocation inside one operation (1-based) -/
abbrev Cb := Nat → Act

/-- the two file-static variables of Interrupt.cpp -/
structure State where
  requested : Bool
  callback : Option Cb

/-- `bool requested = false; Callback* callback = nullptr;` -/
def State.init0 : State := ⟨false, none⟩

/-- `Interrupt::request()`: `requested = true;` -/
def request (s : State) : State := { s with requested := true }

/-- `Interrupt::cancel()`: `requested = false;` -/
def cancel (s : State) : State := { s with requested := false }

/-- `Interrupt::check()`: `return requested;` -/
def check (s : State) : Bool := s.requested

/-- `Interrupt::registerCallback(cb)`: `prev = callback; callback = cb; return prev;` -/
def registerCallback (s : State) (cb : Option Cb) : State × Option Cb :=
  ({ s with callback := cb }, s.callback)

/-- `GEOS_init_r()`: allocates a context and calls `Interrupt::cancel()` -/
def geosInit (s : State) : State := cancel s

/-- effect of one callback invocation -/
def applyAct (a : Act) (s : State) : State :=
  match a with
  | .nothing => s
  | .request => request s
  | .cancel => cancel s

/-- `Interrupt::process()` executed as the i-th poll of an operation.  Literally:

        if(callback) (*callback)();
        if(requested) { requested = false; interrupt(); /* requested = false; throw */ }

    Returns the new state and whether `InterruptedException` was thrown. -/
def process (s : State) (i : Nat) : State × Bool :=
  let s1 := match s.callback with
    | some cb => applyAct (cb i) s
    | none => s
  if s1.requested then ({ s1 with requested := false }, true) else (s1, false)

/-- what `(*cb)()` — the call through the registered pointer at poll `i` — does to the flag `q`; this is the
    interpretation given to the abstract parameter `invoke` of the regenerated `Interrupt::process`
    (Generated/Interrupt.lean, bridge in Props/C14Gen.lean).  A null pointer is never called. -/
def invokeCb (i : Nat) (c : Option Cb) (q : Bool) : Bool :=
  match c with
  | some cb => (applyAct (cb i) ⟨q, c⟩).requested
  | none => q

/-- an operation as seen from the protocol: `polls` checkpoints in an uninterrupted run, result `result` -/
structure Op (ρ : Type) where
  polls : Nat
  result : ρ

/-- what the caller of the C API sees: the result, or the error value with "InterruptedException"
    after the k-th poll (`execute` catches `std::exception`, reports `e.what()`, returns errval) -/
inductive Outcome (ρ : Type) where
  | done (r : ρ)
  | interrupted (k : Nat)
deriving DecidableEq, Repr

/-- polls `i, i+1, …, i+rem-1` of the operation; the first one that throws unwinds to `execute` -/
def runFrom {ρ : Type} (r : ρ) : (rem : Nat) → (i : Nat) → State → State × Outcome ρ
  | 0, _, s => (s, .done r)
  | rem + 1, i, s =>
    match process s i with
    | (s', true) => (s', .interrupted i)
    | (s', false) => runFrom r rem (i + 1) s'

/-- one API call of an interruptible operation from interrupt state `s` -/
def run {ρ : Type} (s : State) (op : Op ρ) : State × Outcome ρ := runFrom op.result op.polls 1 s

/-- number of polls actually executed by `run` (what a counting callback observes) -/
def pollsSeen {ρ : Type} (op : Op ρ) : Outcome ρ → Nat
  | .done _ => op.polls
  | .interrupted k => k

/-! ### callback behaviours used by the harness -/

/-- a callback that only counts -/
def never : Cb := fun _ => .nothing
/-- requests interruption at its k-th invocation -/
def requestAt (k : Nat) : Cb := fun i => if i = k then .request else .nothing
/-- cancels at its k-th invocation -/
def cancelAt (k : Nat) : Cb := fun i => if i = k then .cancel else .nothing

/-! ### script semantics for the structural tie (real `geos::util::Interrupt` driven step by step)

A script is a list of calls; `p` calls `process()` (the i-th `p` of the script passes poll index i to
the callback table), the others are the API functions.  Callbacks are table driven: callback `c`
performs `tab[c][(i-1) mod len]` at poll i. -/

inductive Call where
  | request
  | cancel
  | check
  | register (cb : Option Nat)
  | process
  | init            -- GEOS_init_r (+ finish)
deriving DecidableEq, Repr

/-- script state: flag, registered callback id, number of `process()` calls so far -/
structure SState where
  requested : Bool
  cbId : Option Nat
  nproc : Nat
deriving DecidableEq, Repr

def tableCb (tab : List (List Act)) (c : Nat) : Cb := fun i =>
  match tab[c]? with
  | some (a :: as) => (a :: as)[(i - 1) % (a :: as).length]?.getD .nothing
  | _ => .nothing

def SState.toState (tab : List (List Act)) (s : SState) : State :=
  ⟨s.requested, s.cbId.map (tableCb tab)⟩

/-- observable output of one call: `-` nothing, `0/1` check, `n`/id previous callback, `t/f` threw -/
def stepCall (tab : List (List Act)) (s : SState) : Call → SState × String
  | .request => ({ s with requested := (request (s.toState tab)).requested }, "-")
  | .cancel => ({ s with requested := (cancel (s.toState tab)).requested }, "-")
  | .init => ({ s with requested := (geosInit (s.toState tab)).requested }, "-")
  | .check => (s, if check (s.toState tab) then "1" else "0")
  | .register cb => ({ s with cbId := cb }, match s.cbId with | some c => toString c | none => "n")
  | .process =>
    let i := s.nproc + 1
    let (s', thrown) := process (s.toState tab) i
    ({ s with requested := s'.requested, nproc := i }, if thrown then "t" else "f")

def runScript (tab : List (List Act)) : SState → List Call → List String
  | _, [] => []
  | s, c :: cs => let (s', o) := stepCall tab s c; o :: runScript tab s' cs

end GeosModel.Interrupt
