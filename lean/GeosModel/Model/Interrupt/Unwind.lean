import GeosModel.Model.Interrupt.Proto
/-!
# Between a checkpoint and `execute`: the handlers an `InterruptedException` unwinds through

`Model/Interrupt/Proto.lean` says "the first poll that throws unwinds to `execute`".  That is true only if every
`try { … } catch (…) { … }` on the call stack between the poll and the C API wrapper lets the exception pass unchanged.
This file models those handlers: exception classes along the GEOS hierarchy

    std::exception ⊃ std::runtime_error ⊃ util::GEOSException ⊃ {InterruptedException, TopologyException, IllegalArgumentException, …}
    std::exception ⊃ std::logic_error

a `catch` clause = (static type caught, what its body ends with), a frame = the ordered clauses of one `try`, and
`unwind` = C++ stack unwinding through a list of frames (innermost first).  The frames that exist in the source on the
floating-precision overlay path are transcribed below (`validateFrame`, `robustFrame`, `snapFrame`, `executeFrame`);
`validateFrame` is tied to the real `noding::ValidatingNoder::computeNodes` by the correspondence stream `unwind`.
Core Lean only.
-/
namespace GeosModel.Interrupt

/-- dynamic class of a thrown object (as fine as the handlers in the source distinguish) -/
inductive Exc where
  | interrupted        -- util::InterruptedException
  | topology           -- util::TopologyException
  | illegalArgument    -- util::IllegalArgumentException
  | geosOther          -- any other util::GEOSException
  | runtimeOther       -- any other std::runtime_error
  | logic              -- std::logic_error (not a runtime_error)
  | stdOther           -- any other std::exception
  | nonStd             -- anything else (only `catch (...)` sees it)
deriving DecidableEq, Repr, Inhabited

/-- static type named by a `catch` clause -/
inductive CatchType where
  | ellipsis | stdException | runtimeError | logicError | geosException
  | topologyException | interruptedException | illegalArgumentException
deriving DecidableEq, Repr

/-- does `catch (const T&)` catch an object of dynamic class `e`?  (public single inheritance: subclass test) -/
def CatchType.catches : CatchType → Exc → Bool
  | .ellipsis, _ => true
  | .stdException, e => e != .nonStd
  | .runtimeError, e => e == .interrupted || e == .topology || e == .illegalArgument || e == .geosOther || e == .runtimeOther
  | .logicError, e => e == .logic
  | .geosException, e => e == .interrupted || e == .topology || e == .illegalArgument || e == .geosOther
  | .topologyException, e => e == .topology
  | .interruptedException, e => e == .interrupted
  | .illegalArgumentException, e => e == .illegalArgument

/-- how the body of a handler ends -/
inductive Action where
  | rethrow                  -- `throw;` : the same object continues to unwind
  | throwNew (e : Exc)       -- `throw T(...)` : a new object of class `e` is thrown instead
  | absorb                   -- falls off the end / returns: the exception is gone, the function carries on (retry, fallback, error value)
deriving DecidableEq, Repr

structure Clause where
  ty : CatchType
  act : Action
deriving DecidableEq, Repr

/-- the handlers of one `try` block, in source order -/
abbrev Frame := List Clause

/-- what leaves a frame -/
inductive Flow where
  | raised (e : Exc)
  | absorbed
deriving DecidableEq, Repr

/-- the first clause whose type catches `e` handles it; no clause: `e` passes -/
def Frame.handle : Frame → Exc → Flow
  | [], e => .raised e
  | c :: rest, e =>
    if c.ty.catches e then
      match c.act with
      | .rethrow => .raised e
      | .throwNew e' => .raised e'
      | .absorb => .absorbed
    else Frame.handle rest e

/-- stack unwinding through the frames from the innermost outwards -/
def unwind : List Frame → Exc → Flow
  | [], e => .raised e
  | f :: fs, e =>
    match f.handle e with
    | .raised e' => unwind fs e'
    | .absorbed => .absorbed

/-- a frame is transparent for `e` if `e` leaves it as the same class -/
def Frame.transparentFor (f : Frame) (e : Exc) : Bool := f.handle e == .raised e

/-! ### the frames that exist in the source (floating-precision overlay path) -/

/-- `ValidatingNoder::validate`: `catch (const std::exception&) { …delete the noded strings…; throw; }` -/
def validateFrame : Frame := [⟨.stdException, .rethrow⟩]

/-- `OverlayNGRobust::Overlay`, first attempt (floating noder):
    `catch (const InterruptedException&) { throw; } catch (const std::runtime_error& ex) { exOriginal = ex; /* go on with snapping */ }` -/
def robustFrame : Frame := [⟨.interruptedException, .rethrow⟩, ⟨.runtimeError, .absorb⟩]

/-- `OverlayNGRobust::overlaySnapping / overlaySnapBoth / overlaySR`: `catch (const TopologyException&) { /* return null, try the next */ }` -/
def snapFrame : Frame := [⟨.topologyException, .absorb⟩]

/-- capi `execute`: `catch (const std::exception& e) { ERROR_MESSAGE(e.what()) } catch (...) { ERROR_MESSAGE("Unknown exception thrown") }`, returns the error value -/
def executeFrame : Frame := [⟨.stdException, .absorb⟩, ⟨.ellipsis, .absorb⟩]

/-! ### an operation whose polls sit under handler stacks -/

/-- what the caller of the C API sees when handlers are taken into account -/
inductive FOutcome (ρ : Type) where
  | done (r : ρ)
  | interrupted (k : Nat)          -- error value, message "InterruptedException…"
  | failed (k : Nat) (e : Exc)     -- error value with another message: the interrupt at poll k arrived as a different exception
deriving DecidableEq, Repr

/-- like `runFrom`, with `stack i` = the frames between poll `i` and `execute`.  An interrupt that some frame absorbs lets the
    operation go on (the request was already cleared by `process`). -/
def runFromF {ρ : Type} (stack : Nat → List Frame) (r : ρ) : (rem : Nat) → (i : Nat) → State → State × FOutcome ρ
  | 0, _, s => (s, .done r)
  | rem + 1, i, s =>
    match process s i with
    | (s', true) =>
      match unwind (stack i) .interrupted with
      | .raised .interrupted => (s', .interrupted i)
      | .raised e => (s', .failed i e)
      | .absorbed => runFromF stack r rem (i + 1) s'
    | (s', false) => runFromF stack r rem (i + 1) s'

def FOutcome.ofOutcome {ρ : Type} : Outcome ρ → FOutcome ρ
  | .done r => .done r
  | .interrupted k => .interrupted k

end GeosModel.Interrupt
