import GeosModel.Base.Kernel
import GeosModel.Model.Lines.Merge
/-
C19 — exact contract checkers (SPEC) for noding, polygonizing and shared paths, over `Int` points
(doubles are brought to integers over one common power of two by `F64.scaleAll`, so every test below is exact).

* `nodedOK`      — no two segments of the output meet except at a common endpoint (pairwise `Kernel.segRel`).
* `nearAll`/`coverAll` — "same point set within tol": every output segment has both ends within `tol` of one input
                   segment, and every input segment [a,b] is covered by a chain of output segments from a to b whose
                   vertices all lie within `tol` of [a,b]  (tol = 0 ⇒ exactly the same point set).
* `decompose`    — writes an output coordinate list as a chain of input lines (used for merge / polygonize).
* `polygonizeCheck`, `sharedCheck` — see the doc comments.
Core Lean only.
-/
namespace GeosModel.Lines
open GeosModel.Kernel

structure Seg where
  a : Pt
  b : Pt
deriving DecidableEq, Repr, BEq, Inhabited

def segsOf (line : List Pt) : List Seg := (edges line).map fun e => ⟨e.1, e.2⟩

/-- squared tolerance as a rational `num/den` (den > 0) in squared integer units -/
structure Tol where
  num : Int
  den : Int
deriving Repr

/-- squared distance from `p` to the closed segment `s` is ≤ tol (exact rational comparison) -/
def near (t : Tol) (s : Seg) (p : Pt) : Bool :=
  let d := dot s.a s.b p
  let l2 := sqDist s.a s.b
  if d ≤ 0 then sqDist p s.a * t.den ≤ t.num
  else if l2 ≤ d then sqDist p s.b * t.den ≤ t.num
  else
    let dt := det s.a s.b p
    dt * dt * t.den ≤ t.num * l2

def sharesEndpoint (s t : Seg) : Bool := s.a == t.a || s.a == t.b || s.b == t.a || s.b == t.b

/-- the only ways two distinct segments of a noded arrangement may relate -/
def properPair (s t : Seg) : Bool :=
  match segRel s.a s.b t.a t.b with
  | .disjoint => true
  | .point false => sharesEndpoint s t
  | _ => false

/-- fully noded: every pair of segments is disjoint or touches in one point that is an endpoint of both
(a zero-length segment — a repeated input point is kept by the noder — counts as its point) -/
def nodedOK (out : List Seg) : Bool := allPairs properPair out

/-- every output segment lies (within tol) on some input segment -/
def nearAll (t : Tol) (inp out : List Seg) : Bool :=
  out.all fun o => inp.any fun s => near t s o.a && near t s o.b

def addEnd (S : List Pt) (a b : Pt) : List Pt := if S.contains a && !S.contains b then b :: S else S

def growStep (S : List Pt) (s : Seg) : List Pt := addEnd (addEnd S s.a s.b) s.b s.a

/-- one round of closure: add the far end of every allowed segment that has one end in `S` -/
def grow (segs : List Seg) (S : List Pt) : List Pt := segs.foldl growStep S

def closure (segs : List Seg) : Nat → List Pt → List Pt
  | 0, S => S
  | n + 1, S => closure segs n (grow segs S)

/-- input segment `s` is covered: `s.b` is reachable from `s.a` through output segments whose two ends are within tol of `s` -/
def covered (t : Tol) (out : List Seg) (s : Seg) : Bool :=
  let cand := out.filter fun o => near t s o.a && near t s o.b
  (closure cand cand.length [s.a]).contains s.b

def coverAll (t : Tol) (inp out : List Seg) : Bool := inp.all (covered t out)

/-- the noding contract for input lines / output lines given as vertex lists -/
def nodeCheck (t : Tol) (inp out : List (List Pt)) : Bool :=
  let i := inp.flatMap segsOf
  let o := out.flatMap segsOf
  out.all (fun l => 2 ≤ l.length) && nodedOK o && nearAll t i o && coverAll t (i.filter fun s => s.a != s.b) o

/-- which clause of `nodeCheck` fails first (for the driver's answer line) -/
def nodeVerdict (t : Tol) (inp out : List (List Pt)) : String :=
  let i0 := inp.flatMap segsOf
  let i := i0.filter fun s => s.a != s.b
  let o := out.flatMap segsOf
  if !out.all (fun l => 2 ≤ l.length) then "short-line"
  else if !allPairs properPair o then "not-noded"
  else if !nearAll t i0 o then "output-off-input"
  else if !coverAll t i o then "input-not-covered"
  else "ok"

/-! ### decomposition of an output coordinate list into input lines -/

/-- remove consecutive repeated points (`CoordinateSequence::add(..., allowRepeated = false)`) -/
def dedup : List Pt → List Pt
  | a :: b :: r => if a == b then dedup (b :: r) else a :: dedup (b :: r)
  | l => l

/-- if `target` starts with `pat` (non-empty), the remainder starting at the last matched point -/
def stripPrefix : List Pt → List Pt → Option (List Pt)
  | [], _ => none
  | [p], q :: r => if p == q then some (q :: r) else none
  | p :: ps, q :: r => if p == q then stripPrefix ps r else none
  | _ :: _, [] => none

/-- an input line: id and (deduplicated) vertex list -/
structure InLine where
  id : Nat
  pts : List Pt
deriving Repr, Inhabited

/-- depth-first search for a sequence of unused lines, each forward or (if `allowRev`) reversed, whose concatenation
(sharing the joint vertex) is `target` -/
def decompose (allowRev : Bool) (lines : List InLine) : Nat → List Nat → List Pt → Option (List (Nat × Bool))
  | 0, _, _ => none
  | fuel + 1, used, target =>
    match target with
    | [] => none
    | [_] => some []
    | _ =>
      lines.findSome? fun ln =>
        if used.contains ln.id || ln.pts.length < 2 then none
        else
          let try1 := match stripPrefix ln.pts target with
            | some rest => (decompose allowRev lines fuel (ln.id :: used) rest).map ((ln.id, true) :: ·)
            | none => none
          match try1 with
          | some r => some r
          | none =>
            if !allowRev then none else
            match stripPrefix ln.pts.reverse target with
            | some rest => (decompose allowRev lines fuel (ln.id :: used) rest).map ((ln.id, false) :: ·)
            | none => none

/-- decompose several output lines one after the other, never using an input line twice -/
def decomposeAll (allowRev : Bool) (lines : List InLine) : List (List Pt) → List Nat → Option (List (List (Nat × Bool)))
  | [], _ => some []
  | o :: r, used =>
    match decompose allowRev lines (lines.length + 1) used (dedup o) with
    | none => none
    | some ch =>
      match decomposeAll allowRev lines r (ch.map (·.1) ++ used) with
      | none => none
      | some rest => some (ch :: rest)

/-! ### polygonize -/

/-- abstract edge of an input line (nodes = Int keys given by `key`) -/
def lineEdge (key : Pt → Int) (ln : InLine) : Edge :=
  ⟨ln.id, key (ln.pts.headD default), key (ln.pts.getLastD default)⟩

/-- is `m` reachable from `n` in the multigraph `es` (ignoring the edge with id `skip`)? -/
def connected (es : List Edge) (skip : Option Nat) (n m : Int) : Bool :=
  let es := es.filter fun e => some e.id != skip
  let step (S : List Int) : List Int := es.foldl (fun S e =>
    let S := if S.contains e.a && !S.contains e.b then e.b :: S else S
    if S.contains e.b && !S.contains e.a then e.a :: S else S) S
  let rec go : Nat → List Int → List Int
    | 0, S => S
    | k + 1, S => go k (step S)
  (go es.length [n]).contains m

/-- an edge is a bridge iff its ends are disconnected without it (self-loops are never bridges) -/
def isBridge (es : List Edge) (e : Edge) : Bool := e.a != e.b && !connected es (some e.id) e.a e.b

/-- `PolygonizeGraph::deleteDangles`: repeatedly strip edges with an end of degree 1 -/
def stripDangles : Nat → List Edge → List Edge
  | 0, es => es
  | k + 1, es =>
    let es' := es.filter fun e => !(e.a != e.b && (degree es e.a == 1 || degree es e.b == 1))
    if es'.length == es.length then es else stripDangles k es'

def sameIds (a b : List Nat) : Bool := a.mergeSort (· ≤ ·) == b.mergeSort (· ≤ ·)

/-- number of connected components of the graph on the nodes that carry an edge -/
def components (es : List Edge) : Nat :=
  let nodes := (es.flatMap fun e => [e.a, e.b]).eraseDups
  (nodes.foldl (fun (acc : List Int × Nat) n =>
    if acc.1.any (fun r => connected es none r n) then acc else (n :: acc.1, acc.2 + 1)) ([], 0)).2

/-- ring simplicity and nesting (exact): closed, ≥ 4 points, segments pairwise proper (`nodedOK`) -/
def ringOK (r : List Pt) : Bool :=
  4 ≤ r.length && r.head? == r.getLast? && r.dropLast.eraseDups.length == r.length - 1 && nodedOK (segsOf r)

/-- doubled coordinates, so that segment midpoints are integer points -/
def dbl (p : Pt) : Pt := ⟨2 * p.x, 2 * p.y⟩
def mid2 (a b : Pt) : Pt := ⟨a.x + b.x, a.y + b.y⟩

/-- polygon = shell :: holes.  Rings are simple, rings of one polygon touch at most in single points, every hole
has an edge midpoint strictly inside the shell and outside every other hole -/
def polygonOK (rings : List (List Pt)) : Bool :=
  match rings with
  | [] => false
  | shell :: holes =>
    rings.all ringOK &&
    allPairs (fun r1 r2 => (segsOf r1).all fun s => (segsOf r2).all fun t =>
        match segRel s.a s.b t.a t.b with | .disjoint => true | .point false => sharesEndpoint s t | _ => false) rings &&
    holes.all (fun h => match h with
      | a :: b :: _ => locateInRing (mid2 a b) (shell.map dbl) == .interior
      | _ => false) &&
    allPairs (fun h1 h2 => match h1, h2 with
      | a :: b :: _, c :: d :: _ =>
        locateInRing (mid2 a b) (h2.map dbl) == .exterior && locateInRing (mid2 c d) (h1.map dbl) == .exterior
      | _, _ => false) holes

/-- one use of an input line by a polygon ring: (line id, polygon interior lies to the left of the line's own direction) -/
def ringUses (lines : List InLine) (isHole : Bool) (ring : List Pt) : Option (List (Nat × Bool)) :=
  let ccw := decide (area2 ring > 0)
  (decompose true lines (lines.length + 1) [] (dedup ring)).map fun ch =>
    ch.map fun (id, fwd) => (id, fwd == (ccw != isHole))

structure PolyOut where
  polys : List (List (List Pt))     -- shell :: holes
  dangles : List (List Pt)
  cuts : List (List Pt)
  invalid : List (List Pt)

/-- ids of input lines equal (as a vertex list, forward) to the given output lines, each input line matched once -/
def matchWhole (lines : List InLine) : List (List Pt) → List Nat → Option (List Nat)
  | [], acc => some acc.reverse
  | o :: r, acc =>
    match lines.find? (fun ln => !acc.contains ln.id && (dedup ln.pts == dedup o || dedup ln.pts == (dedup o).reverse)) with
    | some ln => matchWhole lines r (ln.id :: acc)
    | none => none

def nodupB {α : Type} [DecidableEq α] : List α → Bool
  | [] => true
  | x :: r => !(r.any fun y => decide (y = x)) && nodupB r

/-- all uses (line id, side) of input lines by the rings of all polygons; `none` if some ring is not a chain of input lines -/
def usesOf (lines : List InLine) (polys : List (List (List Pt))) : Option (List (Nat × Bool)) :=
  polys.foldl (fun acc rings => acc.bind fun a =>
    match rings with
    | [] => none
    | shell :: holes =>
      (ringUses lines false shell).bind fun u =>
        (holes.foldl (fun acc h => acc.bind fun x => (ringUses lines true h).map (x ++ ·)) (some u)).map (a ++ ·)) (some [])

/-- ids of the input lines making up the reported invalid rings -/
def invalidIds (lines : List InLine) (invalid : List (List Pt)) : List Nat :=
  invalid.flatMap fun r => ((decompose true lines (lines.length + 1) [] (dedup r)).getD []).map (·.1)

/-- the two clauses of the polygonize contract that the property names, as one Boolean:
no (line, side) bounds two rings; in full mode every input line bounds a polygon or is reported as dangle, cut edge or
part of an invalid ring -/
def polyCore (full : Bool) (lines : List InLine) (o : PolyOut) : Bool :=
  let lines := lines.filter fun ln => 2 ≤ ln.pts.length
  match usesOf lines o.polys with
  | none => false
  | some used =>
    nodupB used &&
    (!full ||
      match matchWhole lines o.dangles [], matchWhole lines o.cuts [] with
      | some dIds, some cIds =>
        lines.all fun ln => (used.any fun u => u.1 == ln.id) || dIds.contains ln.id || cIds.contains ln.id ||
          (invalidIds lines o.invalid).contains ln.id
      | _, _ => false)

/-- **polygonize contract** for correctly noded input `lines` (`full` = `GEOSPolygonize_full`, otherwise valid-only mode):
rings are chains of input lines, no (line, side) is used twice, polygons are simple with properly nested holes;
in full mode moreover dangles = the lines stripped by repeated leaf removal, cut edges = the remaining bridges,
every other line bounds a polygon or is reported in an invalid ring, and the number of polygons is the number of
bounded faces (Euler) when no ring is invalid. -/
def polygonizeVerdict (full : Bool) (key : Pt → Int) (lines : List InLine) (o : PolyOut) : String :=
  let lines := lines.filter fun ln => 2 ≤ ln.pts.length
  let uses := o.polys.map fun rings => match rings with
    | [] => none
    | shell :: holes =>
      (ringUses lines false shell).bind fun u =>
        holes.foldl (fun acc h => acc.bind fun a => (ringUses lines true h).map (a ++ ·)) (some u)
  if uses.any Option.isNone then "ring-not-made-of-input-lines"
  else
    let used := uses.flatMap fun u => u.getD []
    if !(used.eraseDups.length == used.length) then "line-side-used-twice"
    else if !o.polys.all polygonOK then "polygon-invalid"
    else if !full then "ok"
    else
      match matchWhole lines o.dangles [], matchWhole lines o.cuts [] with
      | some dIds, some cIds =>
        let inv := o.invalid.map fun r => decompose true lines (lines.length + 1) [] (dedup r)
        if inv.any Option.isNone then "invalid-ring-not-made-of-input-lines"
        else
          let invIds := (inv.flatMap fun u => (u.getD []).map (·.1))
          let es := lines.map (lineEdge key)
          let core := stripDangles es.length es
          let expD := (es.filter fun e => !core.any (·.id == e.id)).map (·.id)
          let expC := (core.filter (isBridge core)).map (·.id)
          let usedIds := used.map (·.1)
          if !sameIds dIds expD then "dangles-differ"
          else if !sameIds cIds expC then "cut-edges-differ"
          else if !(lines.all fun ln => usedIds.contains ln.id || dIds.contains ln.id || cIds.contains ln.id || invIds.contains ln.id)
            then "line-unaccounted"
          else if usedIds.any (fun i => dIds.contains i || cIds.contains i) then "dangle-or-cut-bounds-polygon"
          else
            let core2 := core.filter fun e => !cIds.contains e.id
            let nodes := (core2.flatMap fun e => [e.a, e.b]).eraseDups
            if o.invalid.isEmpty && o.polys.length + nodes.length != core2.length + components core2 then "face-count-differs"
            else "ok"
      | _, _ => "dangle-or-cut-not-an-input-line"

/-! ### shared paths -/

/-- direction of sub-segment `o` relative to a containing segment `s` (+1 same, −1 opposite, 0 = not contained / degenerate) -/
def relDir (s o : Seg) : Int :=
  if onSegment s.a s.b o.a && onSegment s.a s.b o.b then
    ((o.b.x - o.a.x) * (s.b.x - s.a.x) + (o.b.y - o.a.y) * (s.b.y - s.a.y)).sign
  else 0

/-- directions of `o` along geometry `g` (one entry per containing segment) -/
def dirsIn (g : List Seg) (o : Seg) : List Int := (g.map (relDir · o)).filter (· != 0)

/-- the overlap of two collinear overlapping segments, as a segment directed like `s` -/
def overlapOf (s t : Seg) : Seg :=
  let pts := [s.a, s.b, t.a, t.b].filter fun p => onSegment s.a s.b p && onSegment t.a t.b p
  let key (p : Pt) : Int := dot s.a s.b p
  let lo := pts.foldl (fun m p => if key p < key m then p else m) (pts.headD s.a)
  let hi := pts.foldl (fun m p => if key p > key m then p else m) (pts.headD s.a)
  ⟨lo, hi⟩

/-- direction clauses of the shared-paths contract as one Boolean (see `sharedVerdict` for the full contract) -/
def sharedCore (g1 g2 : List (List Pt)) (same opp : List (List Pt)) : Bool :=
  let s1 := (g1.flatMap segsOf).filter fun s => s.a != s.b
  let s2 := (g2.flatMap segsOf).filter fun s => s.a != s.b
  (same.flatMap segsOf).all (fun o => (dirsIn s1 o).any fun d1 => (dirsIn s2 o).any fun d2 => d1 == d2) &&
  (opp.flatMap segsOf).all (fun o => (dirsIn s1 o).any fun d1 => (dirsIn s2 o).any fun d2 => d1 != d2)

/-- **shared paths contract** (g1, g2 simple lines): every output segment lies on g1 and on g2; paths reported as
`same` run in the same direction along both, those reported `opp` in opposite directions; every collinear overlap of
a segment of g1 with a segment of g2 is covered by output segments; no part is reported twice. -/
def sharedVerdict (g1 g2 : List (List Pt)) (same opp : List (List Pt)) : String :=
  let s1 := (g1.flatMap segsOf).filter fun s => s.a != s.b
  let s2 := (g2.flatMap segsOf).filter fun s => s.a != s.b
  let os := same.flatMap segsOf
  let oo := opp.flatMap segsOf
  let all := os ++ oo
  if !all.all (fun o => o.a != o.b) then "zero-length-segment"
  else if !all.all (fun o => !(dirsIn s1 o).isEmpty && !(dirsIn s2 o).isEmpty) then "path-not-on-both"
  else if !os.all (fun o => (dirsIn s1 o).any fun d1 => (dirsIn s2 o).any fun d2 => d1 == d2) then "same-has-opposite-direction"
  else if !oo.all (fun o => (dirsIn s1 o).any fun d1 => (dirsIn s2 o).any fun d2 => d1 != d2) then "opposite-has-same-direction"
  else if !allPairs (fun a b => segRel a.a a.b b.a b.b != .overlap) all then "part-reported-twice"
  else
    let zero : Tol := ⟨0, 1⟩
    let ok := s1.all fun s => s2.all fun t =>
      if segRel s.a s.b t.a t.b == .overlap then covered zero all (overlapOf s t) else true
    if ok then "ok" else "common-part-missing"

end GeosModel.Lines
