/-
C19 — line merging (`geos::operation::linemerge::LineMerger`) on an abstract multigraph.

`LineMergeGraph::addEdge` turns every input LineString with ≥ 2 distinct points into one graph edge between the
nodes of its first and last coordinate (interior vertices are *not* nodes).  Here a node is an `Int` key (the driver
numbers the distinct end coordinates) and an edge is `(id, a, b)`; parallel edges and self-loops (closed input lines)
are allowed.  A merged output line is a *chain*: a list of traversals (`DEdge` = edge + direction).

* `mergeModel`  — executable model of `LineMerger::merge` (start at every node of degree ≠ 2 — or, when directed,
                  at degree-2 nodes whose two edges both leave or both enter —, follow `getNext` through degree-2
                  nodes; then the isolated loops).
* `mergeCheck`  — executable **checker** of the merge contract for an arbitrary candidate output (used by the driver on
                  the output of GEOS and on the output of `mergeModel`); its soundness is proved in Props/C19.lean.
Core Lean only.
-/
namespace GeosModel.Lines

structure Edge where
  id : Nat
  a : Int
  b : Int
deriving DecidableEq, Repr, Inhabited

/-- a traversal of an edge: `fwd = true` runs a → b (the direction of the input line) -/
structure DEdge where
  e : Edge
  fwd : Bool
deriving DecidableEq, Repr, Inhabited

def DEdge.src (d : DEdge) : Int := if d.fwd then d.e.a else d.e.b
def DEdge.dst (d : DEdge) : Int := if d.fwd then d.e.b else d.e.a

abbrev Chain := List DEdge

/-- number of edge ends at node `n` (`Node::getDegree`; a self-loop counts twice) -/
def degree (es : List Edge) (n : Int) : Nat :=
  (es.filter (fun e => e.a == n)).length + (es.filter (fun e => e.b == n)).length

def outCount (es : List Edge) (n : Int) : Nat := (es.filter (fun e => e.a == n)).length
def inCount (es : List Edge) (n : Int) : Nat := (es.filter (fun e => e.b == n)).length

def Chain.src (c : Chain) : Option Int := c.head?.map DEdge.src
def Chain.dst (c : Chain) : Option Int := c.getLast?.map DEdge.dst

/-- end nodes of a chain (start and end) -/
def Chain.ends (c : Chain) : List Int := c.src.toList ++ c.dst.toList

def Chain.closed (c : Chain) : Bool := c.src == c.dst

/-! ### the checker -/

/-- consecutive traversals are joined at a node, and that node has degree exactly 2 -/
def walkOK (es : List Edge) : Chain → Bool
  | d1 :: d2 :: r => d1.dst == d2.src && degree es d1.dst == 2 && walkOK es (d2 :: r)
  | _ => true

/-- a node at which a merged line may stop although it is not closed there -/
def stopOK (directed : Bool) (es : List Edge) (n : Int) : Bool :=
  degree es n != 2 || (directed && (outCount es n == 2 || inCount es n == 2))

/-- per-chain conditions -/
def chainOK (directed : Bool) (es : List Edge) (c : Chain) : Bool :=
  !c.isEmpty && walkOK es c && (!directed || c.all (·.fwd)) &&
  (c.closed || c.ends.all (stopOK directed es))

/-- chains `c1`, `c2` (different output lines) do not meet at a node where merging was required -/
def pairOK (directed : Bool) (es : List Edge) (c1 c2 : Chain) : Bool :=
  c1.ends.all fun n => c2.ends.all fun m => n != m || stopOK directed es n

def allPairs {α : Type} (p : α → α → Bool) : List α → Bool
  | [] => true
  | x :: r => r.all (p x) && allPairs p r

/-- **the merge contract**, decidable: every input edge is used exactly once; every chain is a walk through
degree-2 nodes (forward only when directed); a chain stops only where it must; no two chains meet at a mergeable node -/
def mergeCheck (directed : Bool) (es : List Edge) (chains : List Chain) : Bool :=
  (chains.flatten.map (·.e)).isPerm es &&
  chains.all (chainOK directed es) &&
  allPairs (pairOK directed es) chains

/-! ### executable model of `LineMerger::merge` -/

/-- edge ends at node `n`: (edge, isStartEnd) in input order -/
def endsAt (es : List Edge) (n : Int) : List (Edge × Bool) :=
  es.flatMap fun e => (if e.a == n then [(e, true)] else []) ++ (if e.b == n then [(e, false)] else [])

/-- `LineMergeDirectedEdge::getNext(checkDirection)` -/
def next (directed : Bool) (es : List Edge) (d : DEdge) : Option DEdge :=
  let n := d.dst
  match endsAt es n with
  | [x, y] =>
    let arrive : Edge × Bool := (d.e, !d.fwd)
    let other := if x == arrive then y else x
    let nd : DEdge := ⟨other.1, other.2⟩
    if !directed || nd.fwd then some nd else none
  | _ => none

/-- `buildEdgeStringStartingWith` (do … while current ≠ null ∧ current ≠ start) -/
def follow (directed : Bool) (es : List Edge) (start : DEdge) : Nat → DEdge → Chain → Chain
  | 0, _, acc => acc.reverse
  | fuel + 1, cur, acc =>
    let acc := cur :: acc
    match next directed es cur with
    | none => acc.reverse
    | some nx => if nx == start then acc.reverse else follow directed es start fuel nx acc

/-- `buildEdgeStringsStartingAt(node)` over the out-edges of `n`; `marked` = ids of edges already used -/
def startAt (directed : Bool) (es : List Edge) (n : Int) :
    List (Edge × Bool) → List Nat → List Chain → List Nat × List Chain
  | [], marked, out => (marked, out)
  | (e, isStart) :: r, marked, out =>
    let d : DEdge := ⟨e, isStart⟩
    if (directed && !d.fwd) || marked.contains e.id then startAt directed es n r marked out
    else
      let c := follow directed es d (es.length + 1) d []
      startAt directed es n r (marked ++ c.map (·.e.id)) (out ++ [c])

def isStartNode (directed : Bool) (es : List Edge) (n : Int) : Bool :=
  degree es n != 2 || (directed && (outCount es n == 2 || inCount es n == 2))

def insertInt (x : Int) : List Int → List Int
  | [] => [x]
  | y :: r => if x ≤ y then x :: y :: r else y :: insertInt x r

/-- distinct node keys in increasing order (the iteration order of the `std::map` of nodes); structural, so `decide` can run it -/
def nodesOf (es : List Edge) : List Int :=
  (es.flatMap fun e => [e.a, e.b]).foldr (fun x acc => if acc.contains x then acc else insertInt x acc) []

def mergeModel (directed : Bool) (es : List Edge) : List Chain :=
  let nodes := nodesOf es
  let p1 := nodes.foldl (fun (st : List Nat × List Chain) n =>
      if isStartNode directed es n then startAt directed es n (endsAt es n) st.1 st.2 else st) ([], [])
  let p2 := nodes.foldl (fun (st : List Nat × List Chain) n => startAt directed es n (endsAt es n) st.1 st.2) p1
  p2.2

end GeosModel.Lines
