import GeosModel.Base.Kernel
/-!
# C19 — hole assignment of the polygonizer: `polygonize::EdgeRing::findEdgeRingContaining`

Branch-by-branch model of `src/operation/polygonize/EdgeRing.cpp`

    EdgeRing* EdgeRing::findEdgeRingContaining(const std::vector<EdgeRing*>& erList)
    const Coordinate& EdgeRing::ptNotInList(const CoordinateSequence* testPts, const CoordinateSequence* pts)
    bool EdgeRing::isInList(const Coordinate& pt, const CoordinateSequence* pts)
    bool EdgeRing::isInRing(const Coordinate& pt)            (header: locate(pt) != EXTERIOR)

over exact integer points (the driver scales the doubles of a case by one common power of two).  A ring is its closed
coordinate list (first = last) exactly as `getRingInternal()->getCoordinatesRO()` holds it, *including its start vertex*
(which depends on the order and direction of the input lines).  `IndexedPointInAreaLocator::locate` is represented by the
exact `Kernel.locateInRing`; the null coordinate that `ptNotInList` returns when every vertex is shared (NaN ordinates,
located EXTERIOR) is `none`.  Core Lean only.
-/
namespace GeosModel.Lines.HoleAssign
open GeosModel.Kernel

/-- `geom::Envelope` of a non-empty coordinate list -/
structure Env where
  minx : Int
  maxx : Int
  miny : Int
  maxy : Int
deriving DecidableEq, Repr

def envOf : List Pt → Option Env
  | [] => none
  | p :: r => some (r.foldl (fun e q => ⟨min e.minx q.x, max e.maxx q.x, min e.miny q.y, max e.maxy q.y⟩) ⟨p.x, p.x, p.y, p.y⟩)

/-- `Envelope::equals` (both non-null) -/
def Env.equals (a b : Env) : Bool := a.minx == b.minx && a.maxx == b.maxx && a.miny == b.miny && a.maxy == b.maxy

/-- `Envelope::contains(other)` = `covers(other)` (both non-null): boundaries count -/
def Env.contains (a b : Env) : Bool :=
  decide (b.minx ≥ a.minx) && decide (b.maxx ≤ a.maxx) && decide (b.miny ≥ a.miny) && decide (b.maxy ≤ a.maxy)

/-- `EdgeRing::isInList`: value comparison with every coordinate of `pts` -/
def isInList (p : Pt) (pts : List Pt) : Bool := pts.any fun q => decide (p = q)

/-- `EdgeRing::ptNotInList`: the first coordinate of `testPts` that is not a coordinate of `pts`; `none` = `Coordinate::getNull()` -/
def ptNotInList : (testPts pts : List Pt) → Option Pt
  | [], _ => none
  | p :: r, pts => if !isInList p pts then some p else ptNotInList r pts

/-- `EdgeRing::isInRing(pt)`: `Location::EXTERIOR != locator->locate(&pt)` (boundary counts as inside); the null coordinate is exterior -/
def isInRing (ring : List Pt) : Option Pt → Bool
  | none => false
  | some p => locateInRing p ring != .exterior

/-- the loop state: `minRing` (index in `erList`, its coordinates) and `minRingEnv` -/
structure Min where
  idx : Nat
  ring : List Pt
  env : Env

/-- one iteration of the `for (auto& tryEdgeRing : erList)` loop -/
def step (test : List Pt) (testEnv : Env) (min : Option Min) (i : Nat) (tryRing : List Pt) : Option Min :=
  match envOf tryRing with
  | none => min                                       -- a ring always has coordinates
  | some tryEnv =>
    if tryEnv.equals testEnv then min                  -- "the hole envelope cannot equal the shell envelope"
    else if !tryEnv.contains testEnv then min          -- "hole must be contained in shell"
    else
      let testPt := ptNotInList test tryRing
      if isInRing tryRing testPt then
        match min with
        | none => some ⟨i, tryRing, tryEnv⟩
        | some m => if m.env.contains tryEnv then some ⟨i, tryRing, tryEnv⟩ else min
      else min

def loop (test : List Pt) (testEnv : Env) : Option Min → Nat → List (List Pt) → Option Min
  | min, _, [] => min
  | min, i, r :: rest => loop test testEnv (step test testEnv min i r) (i + 1) rest

/-- `testRing->findEdgeRingContaining(erList)`: the chosen element of `erList`, `none` = nullptr -/
def findContaining (test : List Pt) (erList : List (List Pt)) : Option Min :=
  match envOf test with
  | none => none                                       -- `if (!testRing) return nullptr`
  | some testEnv => loop test testEnv none 0 erList

/-- the answer as the harness prints it: index in `erList` or -1 -/
def findIndex (test : List Pt) (erList : List (List Pt)) : Int :=
  match findContaining test erList with
  | some m => m.idx
  | none => -1

/-! ### the variant without the vertex scan (used only to state why the scan is needed) -/

/-- like `step`, but the test point is simply the first coordinate of the test ring -/
def stepFirst (test : List Pt) (testEnv : Env) (min : Option Min) (i : Nat) (tryRing : List Pt) : Option Min :=
  match envOf tryRing with
  | none => min
  | some tryEnv =>
    if tryEnv.equals testEnv then min
    else if !tryEnv.contains testEnv then min
    else if isInRing tryRing test.head? then
      match min with
      | none => some ⟨i, tryRing, tryEnv⟩
      | some m => if m.env.contains tryEnv then some ⟨i, tryRing, tryEnv⟩ else min
    else min

def loopFirst (test : List Pt) (testEnv : Env) : Option Min → Nat → List (List Pt) → Option Min
  | min, _, [] => min
  | min, i, r :: rest => loopFirst test testEnv (stepFirst test testEnv min i r) (i + 1) rest

def findContainingFirst (test : List Pt) (erList : List (List Pt)) : Option Min :=
  match envOf test with
  | none => none
  | some testEnv => loopFirst test testEnv none 0 erList

end GeosModel.Lines.HoleAssign
