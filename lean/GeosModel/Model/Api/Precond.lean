/-!
# C12 — documented preconditions beyond ownership: the life cycle of an STRtree

geos_c.h, for `GEOSSTRtree_build`, `GEOSSTRtree_query`, `GEOSSTRtree_nearest`, `GEOSSTRtree_nearest_generic` and
`GEOSSTRtree_remove`: "The tree will automatically be constructed if necessary, after which no more items may be added."
(`GEOSSTRtree_iterate` does not build: `TemplateSTRtree::iterate` walks the leaf vector.)  A call sequence that inserts into
a tree after one of these calls leaves the documented preconditions; the property quantifies over sequences that respect them.

The state is the list of trees (object ids) that were built so far.  `TreeLife.step` answers `none` when the call breaks
the precondition, otherwise the new state.  Used by `Driver/C12.lean` (a sequence is replayed only up to the first call that
breaks the precondition) and mirrored by the generator of harness/c12.cpp (`legalArgs`).  Core Lean only.
-/
namespace GeosModel.Api.TreeLife

/-- the entry points that construct the tree they are given -/
def builders : List String :=
  ["GEOSSTRtree_build_r", "GEOSSTRtree_query_r", "GEOSSTRtree_nearest_r", "GEOSSTRtree_nearest_generic_r", "GEOSSTRtree_remove_r"]

def inserter : String := "GEOSSTRtree_insert_r"

/-- one call `fn` whose first object argument is the tree `t` (`none`: the call has no tree argument) -/
def step (built : List Nat) (fn : String) (t : Option Nat) : Option (List Nat) :=
  match t with
  | none => some built
  | some t =>
    if fn == inserter then (if built.contains t then none else some built)
    else if builders.contains fn then some (t :: built)
    else some built

/-- a whole sequence of (entry point, tree argument) pairs; `none` as soon as one call breaks the precondition -/
def run : List Nat → List (String × Option Nat) → Option (List Nat)
  | built, [] => some built
  | built, (fn, t) :: rest =>
    match step built fn t with
    | none => none
    | some b => run b rest

end GeosModel.Api.TreeLife
