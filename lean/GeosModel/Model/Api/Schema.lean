/-!
# C12 — schema of the generated C API table

`translate/api_table.py` reads `capi/geos_c.h.in` and `capi/geos_ts_c.cpp` on every run and writes one
`Entry` per reentrant entry point into `GeosModel/Generated/Api.lean`.  This file is the hand-written
vocabulary of that table plus the decidable per-entry predicates the C12 theorems quantify over.
Core Lean only.
-/
namespace GeosModel.Api

/-- the kinds of objects a C API client can hold -/
inductive Kind where
  | geom | coordSeq | prepared | strtree
  | wktReader | wktWriter | wkbReader | wkbWriter | jsonReader | jsonWriter
  | bufParams | mvParams | clusterInfo | covParams
  | buffer        -- malloc'ed memory handed to the caller (`char*`, `unsigned char*`, arrays), freed with `GEOSFree_r`
  | ctx
deriving DecidableEq, Repr, Inhabited

/-- C return type class -/
inductive RetClass where
  | ptr | charBool | int | dbl | void | size
deriving DecidableEq, Repr

/-- what a pointer result points to -/
inductive RetKind where
  | scalar                 -- not a pointer
  | obj (k : Kind)
  | objArr (k : Kind)      -- malloc'ed array of owned objects (`GEOSGeom_releaseCollection_r`)
  | opaque                 -- `void*` (user data, tree items)
  | handler                -- previous message handler
deriving DecidableEq, Repr

/-- an error value as written in the documentation / the source -/
inductive ErrVal where
  | null
  | int (v : Int)
deriving DecidableEq, Repr

/-- how the body of an entry point is protected against C++ exceptions -/
inductive Wrap where
  | execute          -- the body is exactly one `execute(...)` call (after `using` / local type declarations)
  | executePartial   -- `execute(...)` calls inside other control flow
  | delegate         -- no `execute`, calls other entry points
  | tryCatch         -- hand-written `try { } catch (...) { }`
  | none
deriving DecidableEq, Repr

/-- ownership mode of an object parameter -/
inductive Mode where
  | na
  | const_     -- borrowed, read only
  | modify     -- borrowed, may be modified
  | consume    -- ownership passes to the callee (constructors taking parts, destroy functions)
  | retain     -- borrowed read-only *beyond the call* (base geometry of a prepared geometry)
deriving DecidableEq, Repr

inductive PClass where
  | ctx
  | obj (k : Kind)
  | objArr (k : Kind)
  | outObj (k : Kind)     -- `GEOSGeometry**` output slot
  | str | bytes | dbl | int
  | outDbl | outInt | outStr | dblBuf | intBuf
  | callback | opaque
deriving DecidableEq, Repr

structure Param where
  cls : PClass
  mode : Mode
deriving DecidableEq, Repr

structure Entry where
  name : String
  ret : RetClass
  retKind : RetKind
  /-- the result stays owned by another object (documentation: "do not free", or a const geometry pointer) -/
  retBorrowed : Bool
  params : List Param
  /-- error value promised by the documentation (own comment or the `\see` twin), if any -/
  docErr : Option ErrVal
  /-- error value of the `execute` overload used (through `return OTHER_r(...)` delegation if not direct) -/
  implErr : Option ErrVal
  /-- literal `return`s outside `execute` -/
  manualRets : List ErrVal
  wrap : Wrap
  /-- wrapped directly, or every entry point it delegates to is (transitively) -/
  guarded : Bool
  delegates : List String
  /-- `X->setSRID(<first geometry parameter>->getSRID())` in the body, or `return`-delegation to such a function -/
  sridFromFirst : Bool
deriving Repr

/-! ### per-entry predicates (all `Bool`, so that the table theorems are closed by evaluation) -/

/-- documented error value = implemented error value.  For bodies without `execute` the documented value
must be among the literal `return`s. -/
def Entry.errvalMatchesDoc (e : Entry) : Bool :=
  match e.docErr with
  | none => true
  | some d =>
    match e.implErr with
    | some v => v == d && e.manualRets.all (fun m => m == d)
    | none => e.manualRets.contains d

def Entry.boolPromoted (e : Entry) : Bool :=
  e.ret != .charBool || (e.implErr == some (.int 2) && e.manualRets.all (· == .int 2))

def Entry.ptrNull (e : Entry) : Bool :=
  e.ret != .ptr ||
    ((e.implErr == some .null || e.implErr == none) && e.manualRets.all (· == .null))

/-- a pointer-returning entry point that has an error path at all -/
def Entry.hasErrPath (e : Entry) : Bool := e.implErr.isSome || !e.manualRets.isEmpty

def Entry.isProtected (e : Entry) : Bool := e.guarded

/-- first geometry parameter that is read (not consumed) -/
def Entry.firstGeomParam (e : Entry) : Option Param :=
  e.params.find? (fun p => (p.cls == .obj .geom || p.cls == .objArr .geom) && (p.mode == .const_ || p.mode == .retain))

/-- returns a new geometry owned by the caller and reads a geometry: a *constructive* operation -/
def Entry.isConstructive (e : Entry) : Bool :=
  e.ret == .ptr && e.retKind == .obj .geom && !e.retBorrowed && e.firstGeomParam.isSome

def names (t : List Entry) : List String := t.map (·.name)

def lookup (t : List Entry) (n : String) : Option Entry := t.find? (·.name == n)

def violators (t : List Entry) (p : Entry → Bool) : List String := (t.filter (fun e => !p e)).map (·.name)

end GeosModel.Api
