import GeosModel.Model.Api.Heap
/-!
# C12 — from a generated table entry to a `Call` of the heap model

The correspondence driver receives, for every call the harness made, the entry-point name and one token
per non-context parameter; this file turns `(Entry, object ids per parameter)` into the `Call` the
discipline is checked on.  Nothing here is specific to a function: signatures come from the generated
table (`GeosModel/Generated/Api.lean`).
-/
namespace GeosModel.Api

/-- what the caller passed for one parameter -/
inductive Tok where
  | objs (ids : List Id)    -- object parameter: one id; array parameter: several
  | null                    -- NULL passed for an optional pointer
  | other                   -- scalar, string, buffer, callback, output slot
deriving DecidableEq, Repr

def Entry.resSpec (e : Entry) : ResSpec :=
  match e.params.findSome? (fun p => match p.cls with | .outObj k => some k | _ => none) with
  | some k => .ownedMany k
  | none =>
    match e.retKind with
    | .obj k => if e.retBorrowed then .borrowed k else .owned k
    | .objArr k => .ownedMany k
    | _ => .none

/-- one parameter with its token; `none` = the token does not fit the parameter -/
def argOf (p : Param) (t : Tok) : Option (Option Arg) :=
  match p.cls, t with
  | .ctx, _ => some none
  | .obj k, .objs [i] => some (some ⟨p.mode, k, [i]⟩)
  | .obj _, .null => some none
  | .objArr k, .objs ids => some (some ⟨p.mode, k, ids⟩)
  | .objArr _, .null => some none
  -- an object handed over as an opaque item (STRtree items) stays borrowed by the receiver
  | .opaque, .objs [i] => some (some ⟨.retain, .geom, [i]⟩)
  | .obj _, _ => none
  | .objArr _, _ => none
  | _, .objs _ => none
  | _, _ => some none

def argsOf : List Param → List Tok → Option (List Arg)
  | [], [] => some []
  | p :: ps, t :: ts =>
    match argOf p t, argsOf ps ts with
    | some (some a), some as => some (a :: as)
    | some none, some as => some as
    | _, _ => none
  | _, _ => none

/-- the call of the model for entry `e` with the given tokens (context parameter excluded from `toks`) -/
def Entry.toCall (e : Entry) (toks : List Tok) : Option Call :=
  let ps := e.params.filter (fun p => p.cls != .ctx)
  match argsOf ps toks with
  | some as => some { args := as, res := e.resSpec, errv := e.implErr }
  | none => none

end GeosModel.Api
