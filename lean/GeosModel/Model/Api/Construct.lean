/-!
# C12 — the constructors of the C API that take ownership of their arguments

`GEOSGeom_createCollection_r`, `GEOSGeom_createPolygon_r`, `GEOSGeom_createCurvePolygon_r`,
`GEOSGeom_createCompoundCurve_r` and the four constructors from a coordinate sequence
(`GEOSGeom_createPoint_r / LineString_r / LinearRing_r / CircularString_r`) receive raw pointers whose
ownership passes to GEOS *whatever the outcome* (geos_c.h: "ownership … is transferred"; geos_ts_c.cpp,
trac #1111: "which implies freeing them on exception").  Each of them has a small decision core —
which argument lists are accepted — and an ownership choreography — in which order the raw pointers
are adopted into local `unique_ptr`s, `delete`d by hand, moved into the result, or destroyed by the
unwinding of an exception.  This file is that core as total functions (core Lean only):

* `GCls`: the dynamic class of an argument as far as the `dynamic_cast`s of capi/geos_ts_c.cpp look;
* `Fate`: what happened to one raw pointer — `raw` (nobody owns it: leaked), `held` (a local
  `unique_ptr`, destroyed when the scope is left, normally or by an exception), `freed`, `moved`
  (part of the result), `null`;
* one function per constructor giving the outcome (`ok <type id of the result>` / `err`) and the fate
  of every argument, written in the order of the C++ statements.

The correspondence stream `ctor-own` (harness/c12_own.h ↔ Driver/C12.lean) compares, call by call, outcome,
result type and the fate of every argument (freed: seen by the sanitizer's free hook; moved: same address
as the corresponding part of the result).  The theorems are in `Props/C12.lean` (section C).
-/
namespace GeosModel.Api.Construct

/-- dynamic class of a geometry argument -/
inductive GCls where
  | point | lineString | linearRing | circularString | compoundCurve | polygon | curvePolygon
  | multiPoint | multiLineString | multiPolygon | multiCurve | multiSurface | geometryCollection
deriving DecidableEq, Repr

/-! the `dynamic_cast` tests used by the constructors (class hierarchy of include/geos/geom) -/
def GCls.isPoint : GCls → Bool | .point => true | _ => false
/-- `LineString` and its subclass `LinearRing` -/
def GCls.isLineString : GCls → Bool | .lineString | .linearRing => true | _ => false
def GCls.isLinearRing : GCls → Bool | .linearRing => true | _ => false
def GCls.isPolygon : GCls → Bool | .polygon => true | _ => false
/-- `SimpleCurve`: `LineString`, `LinearRing`, `CircularString` -/
def GCls.isSimpleCurve : GCls → Bool | .lineString | .linearRing | .circularString => true | _ => false
/-- `Curve`: `SimpleCurve` and `CompoundCurve` -/
def GCls.isCurve : GCls → Bool | .compoundCurve => true | c => c.isSimpleCurve
/-- `Surface`: `Polygon` and `CurvePolygon` -/
def GCls.isSurface : GCls → Bool | .polygon | .curvePolygon => true | _ => false

/-- one geometry argument: its class, whether it is empty, and labels of its end points (equal labels =
equal points; only looked at for the sections of a compound curve) -/
structure Member where
  cls : GCls
  empty : Bool
  first : Nat
  last : Nat
deriving DecidableEq, Repr

/-- what happened to the raw pointer of one argument -/
inductive Fate where
  | null      -- NULL was passed
  | raw       -- still a bare pointer that nobody owns: leaked
  | held      -- owned by a local `unique_ptr`
  | freed
  | moved     -- owned by the result
deriving DecidableEq, Repr

inductive Out where
  | ok (typeId : Int)
  | err
deriving DecidableEq, Repr

structure Result where
  out : Out
  fates : List Fate
deriving DecidableEq, Repr

/-! ### the ownership operations of the C++ -/

def init : Option Member → Fate | none => .null | some _ => .raw
/-- `unique_ptr::reset(p)` -/
def adopt : Fate → Fate | .raw => .held | f => f
/-- `delete p` -/
def del : Fate → Fate | .raw => .freed | f => f
/-- the destructor of the local `unique_ptr` (scope left by `return` or by an exception) -/
def unwind : Fate → Fate | .held => .freed | f => f
/-- `std::move` into the result -/
def move : Fate → Fate | .held => .moved | f => f

/-! ### GEOSGeom_createCollection_r -/

def tMultiPoint : Int := 4
def tMultiLineString : Int := 5
def tMultiPolygon : Int := 6
def tGeometryCollection : Int := 7
def tMultiCurve : Int := 11
def tMultiSurface : Int := 12

def typedCollection (type : Int) : Bool :=
  type == tMultiPoint || type == tMultiLineString || type == tMultiPolygon || type == tMultiCurve || type == tMultiSurface

/-- the test of the second loop ("the typed collections cast their members without looking at them") -/
def memberOk (type : Int) : Option Member → Bool
  | none => false
  | some m =>
    type == tGeometryCollection ||
    (type == tMultiPoint && m.cls.isPoint) ||
    (type == tMultiLineString && m.cls.isLineString) ||
    (type == tMultiPolygon && m.cls.isPolygon) ||
    (type == tMultiCurve && m.cls.isCurve) ||
    (type == tMultiSurface && m.cls.isSurface) ||
    !typedCollection type

/-- first loop: every member is adopted; second loop: the first refused member throws (all `unique_ptr`s are
destroyed); `switch`: the six collection types move the members into the result, any other type reports
"Unsupported type request" and returns the null `g` (the vector is destroyed at the end of the scope) -/
def createCollection (type : Int) (ms : List (Option Member)) : Result :=
  let st := (ms.map init).map adopt
  if !ms.all (memberOk type) then ⟨.err, st.map unwind⟩
  else if type == tGeometryCollection || typedCollection type then ⟨.ok type, st.map move⟩
  else ⟨.err, st.map unwind⟩

/-- the *seeded* variant "validate, then adopt" in one loop: the exception thrown for member `k` finds the
members before `k` adopted and leaves `k …` as bare pointers.  (Not the code; kept to show that the
theorems separate the two.) -/
def validateThenAdoptLoop (type : Int) : List (Option Member) → Option (List Fate)
  | [] => some []
  | m :: rest =>
    if memberOk type m then (validateThenAdoptLoop type rest).map (adopt (init m) :: ·)
    else none

def fatesAfterThrowAt (type : Int) : List (Option Member) → List Fate
  | [] => []
  | m :: rest =>
    if memberOk type m then unwind (adopt (init m)) :: fatesAfterThrowAt type rest
    else (m :: rest).map init

def createCollectionValidateThenAdopt (type : Int) (ms : List (Option Member)) : Result :=
  match validateThenAdoptLoop type ms with
  | none => ⟨.err, fatesAfterThrowAt type ms⟩
  | some st =>
    if type == tGeometryCollection || typedCollection type then ⟨.ok type, st.map move⟩
    else ⟨.err, st.map unwind⟩

/-! ### GEOSGeom_createPolygon_r -/

def isRing : Option Member → Bool | some m => m.cls.isLinearRing | none => false
def memEmpty : Option Member → Bool | some m => m.empty | none => true

/-- "Validate input before taking ownership": a bad shell or hole ⇒ every non-null argument is `delete`d
by hand and an exception is thrown.  Otherwise all are adopted; with holes the `Polygon` constructor
refuses an empty shell with a non-empty hole (the arguments, already moved into the constructor's
parameters, are destroyed by the unwinding). -/
def createPolygon (shell : Option Member) (holes : List (Option Member)) : Result :=
  let st := (shell :: holes).map init
  if !(holes.all isRing && isRing shell) then ⟨.err, st.map del⟩
  else
    let st := st.map adopt
    if !holes.isEmpty && memEmpty shell && holes.any (fun h => !memEmpty h) then ⟨.err, st.map unwind⟩
    else ⟨.ok 3, st.map move⟩

/-! ### GEOSGeom_createCurvePolygon_r -/

def isCurveArg : Option Member → Bool | some m => m.cls.isCurve | none => false

/-- every argument is looked at in turn: a `Curve` is adopted, anything else is `delete`d at once -/
def adoptOrDelete (p : Option Member → Bool) (m : Option Member) : Fate :=
  if p m then adopt (init m) else del (init m)

def createCurvePolygon (shell : Option Member) (holes : List (Option Member)) : Result :=
  let st := (shell :: holes).map (adoptOrDelete isCurveArg)
  if !(isCurveArg shell && holes.all isCurveArg) then ⟨.err, st.map unwind⟩
  else if memEmpty shell && holes.any (fun h => !memEmpty h) then ⟨.err, st.map unwind⟩
  else ⟨.ok 10, st.map move⟩

/-! ### GEOSGeom_createCompoundCurve_r -/

def isSimpleCurveArg : Option Member → Bool | some m => m.cls.isSimpleCurve | none => false

/-- `CompoundCurve::validateConstruction`: consecutive sections must both be non-empty and join -/
def contiguous : List Member → Bool
  | a :: b :: rest => !a.empty && !b.empty && a.last == b.first && contiguous (b :: rest)
  | _ => true

def createCompoundCurve (ms : List (Option Member)) : Result :=
  let st := ms.map (adoptOrDelete isSimpleCurveArg)
  if !ms.all isSimpleCurveArg then ⟨.err, st.map unwind⟩
  else if !contiguous (ms.filterMap id) then ⟨.err, st.map unwind⟩
  else ⟨.ok 9, st.map move⟩

/-! ### the constructors from a coordinate sequence (`n` points; `closed`: last point = first point) -/

/-- `Point(CoordinateSequence&&)`: the coordinates are copied out of the sequence, which is destroyed with the
temporary `unique_ptr` in either case -/
def createPoint (n : Nat) : Result :=
  if n > 1 then ⟨.err, [unwind (adopt .raw)]⟩ else ⟨.ok 0, [unwind (adopt .raw)]⟩

/-- `LineString::validateConstruction`: exactly one point is refused -/
def createLineString (n : Nat) : Result :=
  if n == 1 then ⟨.err, [unwind (adopt .raw)]⟩ else ⟨.ok 1, [move (adopt .raw)]⟩

/-- `LineString::validateConstruction`, then `LinearRing::validateConstruction`: empty is fine, else closed
and at least `MINIMUM_VALID_SIZE = 3` points -/
def createLinearRing (n : Nat) (closed : Bool) : Result :=
  if n == 1 then ⟨.err, [unwind (adopt .raw)]⟩
  else if n == 0 then ⟨.ok 2, [move (adopt .raw)]⟩
  else if !closed then ⟨.err, [unwind (adopt .raw)]⟩
  else if n < 3 then ⟨.err, [unwind (adopt .raw)]⟩
  else ⟨.ok 2, [move (adopt .raw)]⟩

/-- `CircularString::validateConstruction`: exactly two points are refused -/
def createCircularString (n : Nat) : Result :=
  if n == 2 then ⟨.err, [unwind (adopt .raw)]⟩ else ⟨.ok 8, [move (adopt .raw)]⟩

/-! ### all of them -/

inductive Ctor where
  | coll (type : Int) (ms : List (Option Member))
  | poly (shell : Option Member) (holes : List (Option Member))
  | cpoly (shell : Option Member) (holes : List (Option Member))
  | ccurve (ms : List (Option Member))
  | point (n : Nat)
  | line (n : Nat)
  | ring (n : Nat) (closed : Bool)
  | circ (n : Nat)
deriving Repr

def Ctor.nargs : Ctor → Nat
  | .coll _ ms => ms.length
  | .poly _ hs => hs.length + 1
  | .cpoly _ hs => hs.length + 1
  | .ccurve ms => ms.length
  | _ => 1

def Ctor.run : Ctor → Result
  | .coll t ms => createCollection t ms
  | .poly s hs => createPolygon s hs
  | .cpoly s hs => createCurvePolygon s hs
  | .ccurve ms => createCompoundCurve ms
  | .point n => createPoint n
  | .line n => createLineString n
  | .ring n c => createLinearRing n c
  | .circ n => createCircularString n

/-- the argument is gone for good: freed by GEOS or owned by the result (or it was NULL) -/
def Fate.settled : Fate → Bool | .null | .freed | .moved => true | _ => false

end GeosModel.Api.Construct
