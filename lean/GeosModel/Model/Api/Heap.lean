import GeosModel.Model.Api.Schema
/-!
# C12 — abstract object heap of a C API client and the documented ownership discipline

The C API hands out pointers to objects (geometries, coordinate sequences, prepared geometries,
STRtrees, readers/writers, parameter objects, malloc'ed buffers).  The documentation attaches an
ownership rule to every parameter and result:

* results are owned by the caller ("Caller is responsible for freeing with …") unless documented as
  views into a parent ("Owned by parent geometry, do not free": `GEOSGetGeometryN_r`,
  `GEOSGetExteriorRing_r`, `GEOSGetInteriorRingN_r`, `GEOSGeom_getCoordSeq_r`, `GEOSSTRtree_nearest_r`);
* `const` parameters are only read; non-`const` ones may be modified;
* some parameters are *consumed* (ownership passes to the callee): the parts given to
  `GEOSGeom_createPoint_r/LineString_r/LinearRing_r/Polygon_r/Collection_r/…` and the argument of
  every `…_destroy_r` / `GEOSFree_r`.  They are gone after the call **whatever its outcome**
  (geos_ts_c.cpp frees them on exception, trac #1111);
* some parameters stay *borrowed beyond the call*: the base geometry of a prepared geometry must
  outlive it, the items of an STRtree must outlive their use by `GEOSSTRtree_nearest_r`.

`step` is that discipline as a total function on an abstract heap: `id ↦ (kind, live, owner, borrows,
version)`; an id is the position of the object in the heap (objects are never removed, only marked dead).
Whether the implementation answers with a result or with its error value is *observed*, not predicted
(`Obs`), so the model is a relation resolved by the observation.  Core Lean only.
-/
namespace GeosModel.Api

abbrev Id := Nat

structure Obj where
  kind : Kind
  live : Bool
  /-- `some p`: a view into the caller-owned object `p` (dies with it, must not be destroyed);
      `none`: owned by the caller -/
  owner : Option Id
  /-- caller-owned objects that must stay alive and unmodified as long as this object lives -/
  borrows : List Id
  /-- bumped by every call whose signature allows it to modify the object -/
  ver : Nat
deriving DecidableEq, Repr

abbrev Heap := List Obj

/-- one actual argument: the ids passed for one object parameter (an array parameter passes several) -/
structure Arg where
  mode : Mode
  kind : Kind
  ids : List Id
deriving DecidableEq, Repr

inductive ResSpec where
  | none
  | owned (k : Kind)
  | ownedMany (k : Kind)      -- an array of caller-owned objects (`GEOSGeom_releaseCollection_r`)
  | borrowed (k : Kind)       -- a view owned by the first object argument
deriving DecidableEq, Repr

structure Call where
  args : List Arg
  res : ResSpec
  /-- the error value of the entry point (from the generated table) -/
  errv : Option ErrVal
deriving DecidableEq, Repr

/-- what the implementation was observed to do -/
inductive Obs where
  | ok (n : Nat)     -- normal return creating `n` objects
  | err              -- error value returned
deriving DecidableEq, Repr

inductive Outcome where
  | result (ids : List Id)
  | scalar
  | error (v : Option ErrVal)
deriving DecidableEq, Repr

/-! ### reading the heap -/

def isLive (h : Heap) (i : Id) : Bool :=
  match h[i]? with
  | some o => o.live
  | none => false

/-- the caller-owned object an id belongs to (itself unless it is a view) -/
def root (h : Heap) (i : Id) : Id :=
  match h[i]? with
  | some o => o.owner.getD i
  | none => i

/-- some live object relies on `i` staying alive and unmodified -/
def isBorrowed (h : Heap) (i : Id) : Bool :=
  h.any (fun o => o.live && o.borrows.contains i)

def Call.idsOf (c : Call) (p : Mode → Bool) : List Id :=
  (c.args.filter (fun a => p a.mode)).flatMap (·.ids)

def Call.consumed (c : Call) : List Id := c.idsOf (· == .consume)
def Call.mutated (c : Call) : List Id := c.idsOf (· == .modify)
def Call.readOnly (c : Call) : List Id := c.idsOf (fun m => m == .const_ || m == .retain)
def Call.retained (c : Call) : List Id := c.idsOf (· == .retain)
def Call.allIds (c : Call) : List Id := c.args.flatMap (·.ids)
/-- the ids the call may change or free -/
def Call.excl (c : Call) : List Id := c.consumed ++ c.mutated

/-! ### legality -/

def argOk (h : Heap) (a : Arg) : Bool :=
  a.mode != .na &&
  a.ids.all (fun i => match h[i]? with
    | some o => o.live && o.kind == a.kind
    | none => false)

def exclusiveOk (h : Heap) (i : Id) : Bool :=
  (match h[i]? with
   | some o => o.owner == none
   | none => false) && !isBorrowed h i

def obsOk (c : Call) : Obs → Bool
  | .err => true
  | .ok n =>
    match c.res with
    | .none => n == 0
    | .owned _ => n == 1
    | .ownedMany _ => true
    | .borrowed _ =>
      n == 1 && (match c.allIds.head? with
        | some i => !c.consumed.contains i
        | none => false)

/-- the documented discipline for one call -/
def legal (h : Heap) (c : Call) (obs : Obs) : Bool :=
  c.args.all (argOk h) &&                                   -- every argument is a live object of the right kind
  c.excl.all (exclusiveOk h) &&                             -- consumed / modified objects are caller-owned and nobody relies on them
  decide c.excl.Nodup &&                                    -- no object is consumed twice or consumed and modified
  c.readOnly.all (fun i => !c.excl.contains (root h i)) &&  -- nothing that is only read is (part of) something consumed or modified
  obsOk c obs

/-! ### effect -/

def Call.retainedRoots (c : Call) (h : Heap) : List Id := c.retained.map (root h)

def touch (c : Call) (R : List Id) (i : Id) (o : Obj) : Obj :=
  if c.consumed.contains i then { o with live := false }
  else if c.mutated.contains i then { o with ver := o.ver + 1, borrows := o.borrows ++ R }
  else match o.owner with
    | some p => if c.excl.contains p then { o with live := false } else o
    | none => o

def newObjs (h : Heap) (c : Call) (n : Nat) : List Obj :=
  match c.res with
  | .none => []
  | .owned k => List.replicate n ⟨k, true, none, c.retainedRoots h, 0⟩
  | .ownedMany k => List.replicate n ⟨k, true, none, c.retainedRoots h, 0⟩
  | .borrowed k => List.replicate n ⟨k, true, (c.allIds.head?).map (root h), [], 0⟩

def apply (h : Heap) (c : Call) : Obs → Heap
  | .err => h.mapIdx (touch c (c.retainedRoots h))
  | .ok n => h.mapIdx (touch c (c.retainedRoots h)) ++ newObjs h c n

def outcome (h : Heap) (c : Call) : Obs → Outcome
  | .err => .error c.errv
  | .ok n =>
    match c.res with
    | .none => .scalar
    | _ => .result ((List.range n).map (· + h.length))

inductive Illegal where
  | illegal (why : String)
deriving DecidableEq, Repr

/-- first violated rule, for diagnostics only -/
def explain (h : Heap) (c : Call) (obs : Obs) : String :=
  if !c.args.all (argOk h) then "dead-or-wrong-kind-argument"
  else if !c.excl.all (exclusiveOk h) then "consumed-or-modified-object-is-a-view-or-still-borrowed"
  else if !decide c.excl.Nodup then "object-consumed-twice"
  else if !c.readOnly.all (fun i => !c.excl.contains (root h i)) then "read-argument-overlaps-consumed-or-modified"
  else if !obsOk c obs then "observation-does-not-fit-signature"
  else "legal"

def step (h : Heap) (c : Call) (obs : Obs) : Except Illegal (Heap × Outcome) :=
  if legal h c obs then .ok (apply h c obs, outcome h c obs)
  else .error (.illegal (explain h c obs))

/-- run a call sequence; `Except.error` at the first illegal call -/
def run : Heap → List (Call × Obs) → Except Illegal (Heap × List Outcome)
  | h, [] => .ok (h, [])
  | h, (c, obs) :: cs =>
    match step h c obs with
    | .error e => .error e
    | .ok (h1, out) =>
      match run h1 cs with
      | .error e => .error e
      | .ok (h', outs) => .ok (h', out :: outs)

/-- every id consumed by some call of the sequence -/
def consumedAll (cs : List (Call × Obs)) : List Id := cs.flatMap (fun p => p.1.consumed)

/-! ### representation invariant -/

structure WF (h : Heap) : Prop where
  /-- a live view has a live, caller-owned parent -/
  owner : ∀ (i : Id) (o : Obj) (p : Id), h[i]? = some o → o.live = true → o.owner = some p →
    ∃ po : Obj, h[p]? = some po ∧ po.live = true ∧ po.owner = none
  /-- everything a live object borrows is live and caller-owned -/
  borrows : ∀ (i : Id) (o : Obj) (b : Id), h[i]? = some o → o.live = true → b ∈ o.borrows →
    ∃ bo : Obj, h[b]? = some bo ∧ bo.live = true ∧ bo.owner = none

end GeosModel.Api
