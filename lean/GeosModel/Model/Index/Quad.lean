import GeosModel.Base.Env
/-
Model of `geos::index::quadtree` (NodeBase.h / NodeBase.cpp, Node.cpp, Root.cpp, Key.cpp, Quadtree.cpp).

One inductive type for both kinds of `NodeBase`: `env = none` is the `Root` (its `isSearchMatch` is constantly
true, its centre the origin), `env = some b` a `Node` with envelope `b`; `nil` is a null `subnodes[k]` pointer.
`subs` is the array `subnodes[0..3]`
      2 | 3
      --+--
      0 | 1
`size` stands for the node's `level` (`size = 2^level`, in the same unit as the ordinates): `level - 1` is
`size / 2`, `node->level == level - 1` is `2 * node.size = size`.

Ordinates are integers.  The model is exact for the inputs the correspondence stream `quadnode` feeds: integer
ordinates scaled by 4 (so that the half-unit padding of `Quadtree::ensureExtent`, every quad corner and every quad
centre `(min + max) / 2` is an integer: quads never get smaller than half a unit, see `getNodeAdd`).
Core Lean only (linked into the driver).
-/
namespace GeosModel.Quad

inductive QT (ι : Type) where
  | nil : QT ι
  | node (env : Option Box) (size : Int) (items : List ι) (subs : List (QT ι)) : QT ι

variable {ι : Type}

def QT.isNil : QT ι → Bool
  | .nil => true
  | .node .. => false

/-- `Node::isSearchMatch` (`env->intersects(searchEnv)`) / `Root::isSearchMatch` (`true`) -/
def searchMatch (env : Option Box) (q : Env) : Bool :=
  match env with
  | none => true
  | some b => Env.inter (some b) q

/-- `NodeBase::hasItems` -/
def QT.hasItems : QT ι → Bool
  | .nil => false
  | .node _ _ items _ => !items.isEmpty

/-- the loop of `NodeBase::hasChildren` over `subnodes` -/
def hasChildrenL : List (QT ι) → Bool
  | [] => false
  | k :: ks => if !k.isNil then true else hasChildrenL ks

/-- `NodeBase::hasChildren` -/
def QT.hasChildren : QT ι → Bool
  | .nil => false
  | .node _ _ _ subs => hasChildrenL subs

/-- `NodeBase::isPrunable` -/
def QT.isPrunable (t : QT ι) : Bool := !(t.hasChildren || t.hasItems)

mutual
  /-- `NodeBase::addAllItems` (what `Quadtree::queryAll` returns): own items, then the subnodes in index order -/
  def QT.allItems : QT ι → List ι
    | .nil => []
    | .node _ _ items subs => items ++ allItemsL subs
  def allItemsL : List (QT ι) → List ι
    | [] => []
    | k :: ks => k.allItems ++ allItemsL ks
end

mutual
  /-- `NodeBase::addAllItemsFromOverlapping` (`Quadtree::query(env, vector)`); `NodeBase::visit` /
  `visitItems` (`Quadtree::query(env, visitor)`) walks the same nodes in the same order -/
  def QT.query (q : Env) : QT ι → List ι
    | .nil => []
    | .node env _ items subs => if searchMatch env q then items ++ queryL q subs else []
  def queryL (q : Env) : List (QT ι) → List ι
    | [] => []
    | k :: ks => k.query q ++ queryL q ks
end

mutual
  /-- `NodeBase::size` -/
  def QT.size : QT ι → Nat
    | .nil => 0
    | .node _ _ items subs => sizeL subs + items.length
  def sizeL : List (QT ι) → Nat
    | [] => 0
    | k :: ks => k.size + sizeL ks
end

mutual
  /-- `NodeBase::depth` -/
  def QT.depth : QT ι → Nat
    | .nil => 0
    | .node _ _ _ subs => depthL subs + 1
  def depthL : List (QT ι) → Nat
    | [] => 0
    | k :: ks => let d := k.depth; let m := depthL ks; if d > m then d else m
end

mutual
  /-- `NodeBase::remove(itemEnv, item)`: not a search match → false; else the first non-null subnode (index order)
  in which the removal succeeds — that subnode is deleted when `isPrunable()` — else `std::find` + `erase` in the
  node's own items -/
  def QT.remove [BEq ι] (q : Env) (i : ι) : QT ι → QT ι × Bool
    | .nil => (.nil, false)
    | .node env sz items subs =>
      if searchMatch env q then
        let r := removeL q i subs
        if r.2 then (.node env sz items r.1, true)
        else if items.contains i then (.node env sz (items.erase i) subs, true)
        else (.node env sz items subs, false)
      else (.node env sz items subs, false)
  /-- the `for (auto& subnode : subnodes)` loop of `remove` (`break` after the first success; a null subnode is
  skipped: `nil.remove` is `false`) -/
  def removeL [BEq ι] (q : Env) (i : ι) : List (QT ι) → List (QT ι) × Bool
    | [] => ([], false)
    | k :: ks =>
      let r := k.remove q i
      if r.2 then ((if r.1.isPrunable then .nil else r.1) :: ks, true)
      else
        let r2 := removeL q i ks
        (k :: r2.1, r2.2)
end

/-! ### insertion: `NodeBase::getSubnodeIndex`, `Node::createSubnode / getNode / find / insertNode / createNode /
createExpanded`, `Key`, `Root::insert / insertContained`, `Quadtree::ensureExtent / insert / remove` -/

/-- `NodeBase::getSubnodeIndex(env, centre)`, assignment by assignment (`none` = -1) -/
def subnodeIndex (e : Box) (cx cy : Int) : Option Nat :=
  let r0 : Option Nat := none
  let r1 := if e.minx ≥ cx then
      (let a := if e.miny ≥ cy then some 3 else r0
       if e.maxy ≤ cy then some 1 else a)
    else r0
  if e.maxx ≤ cx then
    (let a := if e.miny ≥ cy then some 2 else r1
     if e.maxy ≤ cy then some 0 else a)
  else r1

/-- the `centre` member of `Node` -/
def centre (b : Box) : Int × Int := ((b.minx + b.maxx) / 2, (b.miny + b.maxy) / 2)

/-- the envelope computed by `Node::createSubnode(index)` (a `switch` without default: all zero otherwise) -/
def subBox (b : Box) (k : Nat) : Box :=
  let c := centre b
  match k with
  | 0 => ⟨b.minx, c.1, b.miny, c.2⟩
  | 1 => ⟨c.1, b.maxx, b.miny, c.2⟩
  | 2 => ⟨b.minx, c.1, c.2, b.maxy⟩
  | 3 => ⟨c.1, b.maxx, c.2, b.maxy⟩
  | _ => ⟨0, 0, 0, 0⟩

/-- a new `Node` (the `NodeBase` constructor nulls the four subnodes) -/
def fresh (b : Box) (sz : Int) : QT ι := .node (some b) sz [] [.nil, .nil, .nil, .nil]

/-- `Node::createSubnode(index)` -/
def createSubnode (b : Box) (sz : Int) (k : Nat) : QT ι := fresh (subBox b k) (sz / 2)

/-- `Node::getSubnode(index)`: create the quad if it does not exist -/
def getSubnode (b : Box) (sz : Int) (subs : List (QT ι)) (k : Nat) : QT ι :=
  match subs.getD k .nil with
  | .nil => createSubnode b sz k
  | s => s

/-- `tree->getNode(itemEnv)->add(item)`: descend into (creating) the subquad that contains the envelope
until none does.  `fuel` bounds the recursion (the C++ relies on the envelope having non-zero extent). -/
def getNodeAdd (e : Box) (i : ι) : Nat → QT ι → QT ι
  | 0, t => t
  | _ + 1, .nil => .nil
  | _ + 1, .node none sz items subs => .node none sz items subs
  | f + 1, .node (some b) sz items subs =>
    match subnodeIndex e (centre b).1 (centre b).2 with
    | some k => .node (some b) sz items (subs.set k (getNodeAdd e i f (getSubnode b sz subs k)))
    | none => .node (some b) sz (items ++ [i]) subs

/-- `tree->find(itemEnv)->add(item)`: the smallest *existing* quad containing the envelope -/
def findAdd (e : Box) (i : ι) : Nat → QT ι → QT ι
  | 0, t => t
  | _ + 1, .nil => .nil
  | _ + 1, .node none sz items subs => .node none sz items subs
  | f + 1, .node (some b) sz items subs =>
    match subnodeIndex e (centre b).1 (centre b).2 with
    | none => .node (some b) sz (items ++ [i]) subs
    | some k =>
      match subs.getD k .nil with
      | .nil => .node (some b) sz (items ++ [i]) subs
      | s => .node (some b) sz items (subs.set k (findAdd e i f s))

def dMax (e : Box) : Int :=
  let dx := e.maxx - e.minx
  let dy := e.maxy - e.miny
  if dx > dy then dx else dy

/-- `Key::computeQuadLevel` as a size: the least `unit * 2^L`, `L ≥ 0`, with `dMax < unit * 2^L`
(`frexp`; exact for the extents 0, 1/2, 1, 2, … units that occur) -/
def quadLevelSize (d : Int) : Nat → Int → Int
  | 0, sz => sz
  | f + 1, sz => if d < sz then sz else quadLevelSize d f (2 * sz)

/-- `Key::computeKey(level, itemEnv)` -/
def keyBox (e : Box) (sz : Int) : Box :=
  let px := (e.minx / sz) * sz
  let py := (e.miny / sz) * sz
  ⟨px, px + sz, py, py + sz⟩

/-- the `while (!env.contains(itemEnv)) level += 1` loop of `Key::computeKey(itemEnv)`; `none`: out of fuel -/
def computeKey (e : Box) : Nat → Int → Option (Box × Int)
  | 0, _ => none
  | f + 1, sz =>
    let kb := keyBox e sz
    if Env.covers (some kb) (some e) then some (kb, sz) else computeKey e f (2 * sz)

/-- `Node::createNode(env)`; `unit` is the model's image of 1.0 -/
def createNode (unit : Int) (e : Box) : Option (QT ι) :=
  (computeKey e 64 (quadLevelSize (dMax e) 64 unit)).map fun p => fresh p.1 p.2

/-- `Node::insertNode(node)`; `none` = `assert(index >= 0)` fails (an out-of-range subscript in a release build) or the
fuel ran out; `assert(env->contains(node->getEnvelope()))` is compiled out and not modelled -/
def insertNode : Nat → QT ι → QT ι → Option (QT ι)
  | f + 1, .node (some b) sz items subs, .node (some nb) nsz nitems nsubs =>
    match subnodeIndex nb (centre b).1 (centre b).2 with
    | none => none
    | some k =>
      if 2 * nsz = sz then some (.node (some b) sz items (subs.set k (.node (some nb) nsz nitems nsubs)))
      else
        match insertNode f (createSubnode b sz k) (.node (some nb) nsz nitems nsubs) with
        | some c => some (.node (some b) sz items (subs.set k c))
        | none => none
  | _, _, _ => none

/-- `Node::createExpanded(node, addEnv)` -/
def createExpanded (unit : Int) (node : QT ι) (e : Box) : Option (QT ι) :=
  match node with
  | .nil => createNode unit e
  | .node nenv nsz nitems nsubs =>
    match Env.union (some e) nenv with
    | none => none
    | some x =>
      match createNode unit x with
      | none => none
      | some larger => insertNode 64 larger (.node nenv nsz nitems nsubs)

def fuelOf : QT ι → Nat
  | .nil => 0
  | .node _ sz _ _ => sz.toNat + 2

/-- `Root::insertContained` (`IntervalSize::isZeroWidth(min, max)` is `min == max` for the ordinates in range) -/
def insertContained (tree : QT ι) (e : Box) (i : ι) : QT ι :=
  if e.minx == e.maxx || e.miny == e.maxy then findAdd e i (fuelOf tree) tree
  else getNodeAdd e i (fuelOf tree) tree

/-- the empty `Root` -/
def emptyRoot : QT ι := .node none 0 [] [.nil, .nil, .nil, .nil]

/-- `Root::insert(itemEnv, item)` (finite envelopes); `none` = an assertion of the C++ fails -/
def rootInsert (unit : Int) (r : QT ι) (e : Box) (i : ι) : Option (QT ι) :=
  match r with
  | .node none sz items subs =>
    match subnodeIndex e 0 0 with
    | none => some (.node none sz (items ++ [i]) subs)
    | some k =>
      let node := subs.getD k .nil
      let needs := match node with
        | .nil => true
        | .node nenv _ _ _ => !Env.covers nenv (some e)
      let tree := if needs then createExpanded unit node e else some node
      tree.map fun t => .node none sz items (subs.set k (insertContained t e i))
  | _ => none

/-- `Quadtree::ensureExtent(itemEnv, minExtent)` with `half = minExtent / 2` — including the reuse of the already
lowered `minx` / `miny` in the second assignment, so the padded interval is `[min - half, min]` -/
def ensureExtent (half : Int) (e : Box) : Box :=
  if e.minx != e.maxx && e.miny != e.maxy then e
  else
    let minx := if e.minx == e.maxx then e.minx - half else e.minx
    let maxx := if e.minx == e.maxx then minx + half else e.maxx
    let miny := if e.miny == e.maxy then e.miny - half else e.miny
    let maxy := if e.miny == e.maxy then miny + half else e.maxy
    ⟨minx, maxx, miny, maxy⟩

/-- `Quadtree::insert` while `minExtent` keeps its initial value 1.0 (`unit = 2 * half`) -/
def treeInsert (half : Int) (r : QT ι) (e : Box) (i : ι) : Option (QT ι) :=
  rootInsert (2 * half) r (ensureExtent half e) i

/-- `Quadtree::remove` -/
def treeRemove [BEq ι] (half : Int) (r : QT ι) (e : Box) (i : ι) : QT ι × Bool :=
  r.remove (some (ensureExtent half e)) i

end GeosModel.Quad
