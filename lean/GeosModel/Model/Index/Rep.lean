import GeosModel.Base.Cxx
import GeosModel.Base.Env
import GeosModel.Model.Index.STR
/-!
# How the C++ represents the objects of the STR-tree model (used by the translator tie of C15)

`Base/Env.lean` models an envelope as `Option Box` over integer keys (`none` = the null envelope) and
`Model/Index/STR.lean` models a node as `leaf entry | branch bounds kids`.  The C++ has no such types:

* `geom::Envelope` is four `double`s, the null envelope being "all NaN" (`isNull()` is `std::isnan(maxx)`);
* `TemplateSTRNode` encodes the kind of a node in its `children` pointer: `nullptr` = live leaf, `this` = leaf whose
  item has been removed, anything else = composite node (first child);
* `sliceCount` / `sliceCapacity` compute integer ceilings with `double` arithmetic (`ceil`, `sqrt`, `/`).

This file defines those representations so that the definitions regenerated from the C++ (`Generated/STRtree.lean`)
can be proved equal to the model *through* them (`Props/C15Gen.lean`).  Core Lean only.
-/
namespace GeosModel.STR.Rep

/-! ### ordinates with NaN -/

/-- an ordinate as the C++ code sees it: the integer key of a non-NaN double, or NaN (`none`) -/
def NK := Option Int

instance : Inhabited NK := ⟨(none : Option Int)⟩
instance : DecidableEq NK := inferInstanceAs (DecidableEq (Option Int))

def NK.ofKey (k : Int) : NK := some k
def NK.nan : NK := (none : Option Int)

/-- comparisons of doubles: every comparison with a NaN operand is false (also `==`) -/
instance : Cxx.Ord NK where
  lt a b := match a, b with
    | some x, some y => decide (x < y)
    | _, _ => false
  le a b := match a, b with
    | some x, some y => decide (x ≤ y)
    | _, _ => false
  eq a b := match a, b with
    | some x, some y => x == y
    | _, _ => false

/-- `std::isnan` -/
def isnan (a : NK) : Bool := match a with
  | none => true
  | some _ => false

@[simp] theorem lt_key (x y : Int) : Cxx.Ord.lt (NK.ofKey x) (NK.ofKey y) = decide (x < y) := rfl
@[simp] theorem le_key (x y : Int) : Cxx.Ord.le (NK.ofKey x) (NK.ofKey y) = decide (x ≤ y) := rfl
@[simp] theorem eq_key (x y : Int) : Cxx.Ord.eq (NK.ofKey x) (NK.ofKey y) = (x == y) := rfl
@[simp] theorem lt_nan_left (b : NK) : Cxx.Ord.lt NK.nan b = false := rfl
@[simp] theorem le_nan_left (b : NK) : Cxx.Ord.le NK.nan b = false := rfl
@[simp] theorem lt_nan_right (a : NK) : Cxx.Ord.lt a NK.nan = false := by cases a <;> rfl
@[simp] theorem le_nan_right (a : NK) : Cxx.Ord.le a NK.nan = false := by cases a <;> rfl
@[simp] theorem eq_nan_left (b : NK) : Cxx.Ord.eq NK.nan b = false := rfl
@[simp] theorem eq_nan_right (a : NK) : Cxx.Ord.eq a NK.nan = false := by cases a <;> rfl
@[simp] theorem isnan_key (x : Int) : isnan (NK.ofKey x) = false := rfl
@[simp] theorem isnan_nan : isnan NK.nan = true := rfl

/-! ### `geom::Envelope` -/

/-- the four data members of `geom::Envelope`, in declaration order -/
structure CEnv (R : Type) where
  minx : R
  maxx : R
  miny : R
  maxy : R
deriving DecidableEq, Repr

/-- `geom::CoordinateXY` -/
structure CXY (R : Type) where
  x : R
  y : R
deriving DecidableEq, Repr

/-- the C++ object that stands for an envelope of the model: all NaN for the null envelope (`setToNull`) -/
def rep : Env → CEnv NK
  | none => ⟨NK.nan, NK.nan, NK.nan, NK.nan⟩
  | some b => ⟨NK.ofKey b.minx, NK.ofKey b.maxx, NK.ofKey b.miny, NK.ofKey b.maxy⟩

/-- a 4-tuple of members as returned by regenerated `void` member functions that assign them -/
def CEnv.tuple {R : Type} (e : CEnv R) : R × R × R × R := (e.minx, e.maxx, e.miny, e.maxy)

/-! ### `TemplateSTRNode::children` -/

/-- a node pointer: `none` = `nullptr`, `some k` = address of slot `k` of the `nodes` vector -/
abbrev Ptr := Option Nat

variable {β ι : Type}

/-- the `children` member of the node stored in slot `self`, whose first child (if it is composite) is in slot `first` -/
def childrenOf (self first : Nat) : Node β ι → Ptr
  | .leaf e => if e.deleted then some self else none
  | .branch _ _ => some first

/-- is the node a leaf whose item was removed? (`Node.isLeaf` is in STR.lean) -/
def isDeletedLeaf : Node β ι → Bool
  | .leaf e => e.deleted
  | .branch _ _ => false

/-- `removeItem()` on the model: mark a leaf deleted (composite nodes are never passed to it) -/
def markDeleted : Node β ι → Node β ι
  | .leaf e => .leaf { e with deleted := true }
  | n => n

/-! ### slice arithmetic: what the `double` computations are assumed to deliver

`sliceCount` is `(size_t) ceil(sqrt(ceil((double) n / (double) cap)))`, `sliceCapacity` is `(size_t) ceil((double) n / (double) s)`.
The model (`STR.sliceCount`, `STR.sliceCapacity`) uses exact integer ceilings.  `ExactCeil R` states, for a carrier `R` of
the regenerated code, that these particular compositions are computed exactly; it holds for real arithmetic (instance
`Sym` below) and — for the argument ranges that occur, n < 2^53 — for IEEE doubles, which is what the correspondence
stream `strslices` samples (a `Float` instance cannot be reasoned about in Lean). -/
structure ExactCeil (R : Type) [Cxx.Math R] : Prop where
  /-- `ceil((double) a / (double) b)` is the double of the integer ceiling -/
  ceil_div : ∀ a b : Nat, 0 < b →
    Cxx.Math.ceil (Cxx.Field.div (Cxx.Ring.ofInt (Int.ofNat a) : R) (Cxx.Ring.ofInt (Int.ofNat b))) = Cxx.Ring.ofInt (Int.ofNat (ceilDiv a b))
  /-- `(size_t) ceil(sqrt((double) m))` is the least `r` with `m ≤ r²` -/
  ceil_sqrt : ∀ m : Nat, Cxx.Math.toInt (Cxx.Math.ceil (Cxx.Math.sqrt (Cxx.Ring.ofInt (Int.ofNat m) : R))) = Int.ofNat (ceilSqrt m)
  /-- `(size_t) (double) m` is `m` -/
  to_int : ∀ m : Nat, Cxx.Math.toInt (Cxx.Ring.ofInt (Int.ofNat m) : R) = Int.ofNat m

/-- exact (symbolic) real arithmetic on the expressions the slice functions build: integers, quotients of integers,
square roots of integers; every other combination is `junk` (never produced by the regenerated code). -/
inductive Sym where
  | int (i : Int)
  | quot (a b : Int)
  | sqrtInt (m : Int)
  | junk
deriving DecidableEq, Repr, Inhabited

instance : Cxx.Math Sym where
  lt a b := match a, b with | .int x, .int y => decide (x < y) | _, _ => false
  le a b := match a, b with | .int x, .int y => decide (x ≤ y) | _, _ => false
  eq a b := match a, b with | .int x, .int y => x == y | _, _ => false
  add a b := match a, b with | .int x, .int y => .int (x + y) | _, _ => .junk
  sub a b := match a, b with | .int x, .int y => .int (x - y) | _, _ => .junk
  mul a b := match a, b with | .int x, .int y => .int (x * y) | _, _ => .junk
  neg a := match a with | .int x => .int (-x) | _ => .junk
  abs a := match a with | .int x => .int (x.natAbs : Int) | _ => .junk
  ofInt i := .int i
  div a b := match a, b with | .int x, .int y => .quot x y | _, _ => .junk
  ofDec _ _ := .junk
  sqrt a := match a with | .int m => .sqrtInt m | _ => .junk
  floor a := match a with | .int x => .int x | .quot x y => .int (x / y) | _ => .junk
  ceil a := match a with
    | .int x => .int x
    | .quot x y => .int (Int.ofNat (ceilDiv x.toNat y.toNat))      -- x ≥ 0, y > 0 in all uses
    | .sqrtInt m => .int (Int.ofNat (ceilSqrt m.toNat))
    | .junk => .junk
  toInt a := match a with | .int x => x | _ => 0
  isNaN a := match a with | .junk => true | _ => false
  isFinite a := match a with | .junk => false | _ => true

theorem sym_exact : ExactCeil Sym :=
  ⟨fun _ _ _ => rfl, fun _ => rfl, fun _ => rfl⟩

end GeosModel.STR.Rep
