/-
Model of `geos::index::strtree::TemplateSTRtreeImpl` (include/geos/index/strtree/TemplateSTRtree.h,
TemplateSTRNode.h, TemplateSTRtreeDistance.h).

The C++ keeps all nodes in one vector; leaves first, then each level of parents, children of a parent
being a contiguous range.  Because children are contiguous and parents are created in order, the
structural tree below has the same shape, and its leaves in depth-first order are the first `numItems`
entries of the vector (what `iterate` walks).

Generic in the bounds type `β` (only `inter`/`union` are used by query/remove/build) and the item
type `ι`.  The two `std::sort` calls are parameters (`sortX`, `sortY`): the theorems only assume that
they return a permutation, so they hold for whatever order `std::sort` produces on ties.
Core Lean only (this file is linked into the driver).
-/
namespace GeosModel.STR

structure Ops (β : Type) where
  inter : β → β → Bool
  union : β → β → β

structure Entry (β ι : Type) where
  b : β
  item : ι
  deleted : Bool
deriving Repr

inductive Node (β ι : Type) where
  | leaf : Entry β ι → Node β ι
  | branch : β → List (Node β ι) → Node β ι

variable {β ι : Type}

def Node.bounds : Node β ι → β
  | .leaf e => e.b
  | .branch b _ => b

def Node.isLeaf : Node β ι → Bool
  | .leaf _ => true
  | .branch _ _ => false

mutual
  /-- leaves in depth-first order = the order of the first `numItems` vector slots -/
  def Node.leaves : Node β ι → List (Entry β ι)
    | .leaf e => [e]
    | .branch _ ks => leavesL ks
  def leavesL : List (Node β ι) → List (Entry β ι)
    | [] => []
    | k :: ks => k.leaves ++ leavesL ks
end

mutual
  /-- one iteration of the child loop of `TemplateSTRtreeImpl::query(queryEnv, node, visitor)`
  (visitor never aborts): a child whose bounds intersect the query is visited (live leaf) or descended -/
  def queryNode (ops : Ops β) (q : β) : Node β ι → List ι
    | .leaf e => if ops.inter e.b q then (if e.deleted then [] else [e.item]) else []
    | .branch b kk => if ops.inter b q then queryKids ops q kk else []
  /-- the child loop itself -/
  def queryKids (ops : Ops β) (q : β) : List (Node β ι) → List ι
    | [] => []
    | k :: ks => queryNode ops q k ++ queryKids ops q ks
end

/-- top-level `query(queryEnv, visitor)` once the tree is built; `none` = no root (empty tree).
Follows the code *after* the fix for finding F13 (a deleted root leaf is not visited). -/
def queryRoot (ops : Ops β) (q : β) : Option (Node β ι) → List ι
  | none => []
  | some (.leaf e) => if ops.inter e.b q then (if e.deleted then [] else [e.item]) else []
  | some (.branch b kk) => if ops.inter b q then queryKids ops q kk else []

/-- The very same function *before* the fix (root leaf visited without the `isDeleted` test);
kept so the defect can be stated and replayed. -/
def queryRootUnfixed (ops : Ops β) (q : β) : Option (Node β ι) → List ι
  | none => []
  | some (.leaf e) => if ops.inter e.b q then [e.item] else []
  | some (.branch b kk) => if ops.inter b q then queryKids ops q kk else []

mutual
  /-- one iteration of the child loop of `remove(queryEnv, node, item)`: `some` = removed below here -/
  def removeNode [BEq ι] (ops : Ops β) (q : β) (i : ι) : Node β ι → Option (Node β ι)
    | .leaf e =>
        if ops.inter e.b q && !e.deleted && e.item == i then some (.leaf { e with deleted := true }) else none
    | .branch b kk =>
        if ops.inter b q then
          match removeKids ops q i kk with
          | some kk' => some (.branch b kk')
          | none => none
        else none
  /-- `remove(queryEnv, node, item)` over the children of a composite node: the first live leaf (in
  descent order, pruned by bounds) holding an equal item is marked deleted. -/
  def removeKids [BEq ι] (ops : Ops β) (q : β) (i : ι) : List (Node β ι) → Option (List (Node β ι))
    | [] => none
    | k :: ks =>
        match removeNode ops q i k with
        | some k' => some (k' :: ks)
        | none =>
          match removeKids ops q i ks with
          | some ks' => some (k :: ks')
          | none => none
end

/-- top-level `remove(itemEnv, item)` on a built tree (a root leaf ignores the envelope, as in the code) -/
def removeRoot [BEq ι] (ops : Ops β) (q : β) (i : ι) : Option (Node β ι) → Option (Node β ι)
  | none => none
  | some (.leaf e) => if !e.deleted && e.item == i then some (.leaf { e with deleted := true }) else none
  | some (.branch b kk) =>
      match removeKids ops q i kk with
      | some kk' => some (.branch b kk')
      | none => none

/-! ### build -/

def ceilDiv (a b : Nat) : Nat := (a + b - 1) / b

/-- linear search for the least `r` with `n ≤ r*r` (structural, so it also evaluates in the kernel) -/
def ceilSqrtAux (n : Nat) : Nat → Nat → Nat
  | 0, r => r
  | f + 1, r => if n ≤ r * r then r else ceilSqrtAux n f (r + 1)

/-- least `r` with `n ≤ r*r` (exact counterpart of `ceil(sqrt(double))`) -/
def ceilSqrt (n : Nat) : Nat := ceilSqrtAux n n 0

/-- `sliceCount(numNodes)` -/
def sliceCount (cap n : Nat) : Nat := ceilSqrt (ceilDiv n cap)
/-- `sliceCapacity(numNodes, numSlices)` -/
def sliceCapacity (n s : Nat) : Nat := ceilDiv n s

/-- the `for j < numSlices` loop of `createParentNodes`: `s` slices of `min(remaining, per)` nodes -/
def takeSlices {α : Type} (per : Nat) : Nat → List α → List (List α)
  | 0, _ => []
  | s + 1, l => l.take per :: takeSlices per s (l.drop per)

/-- consecutive groups of `cap` (the `while firstChild != end` loop); `fuel` bounds the iterations -/
def chunksF {α : Type} (cap : Nat) : Nat → List α → List (List α)
  | 0, _ => []
  | f + 1, l => if l.isEmpty then [] else l.take cap :: chunksF cap f (l.drop cap)

def chunks {α : Type} (cap : Nat) (l : List α) : List (List α) := chunksF cap l.length l

/-- `boundsFromChildren` -/
def boundsOf (ops : Ops β) : List (Node β ι) → Option β
  | [] => none
  | k :: ks => some (ks.foldl (fun acc c => ops.union acc c.bounds) k.bounds)

def mkBranch (ops : Ops β) (ks : List (Node β ι)) : List (Node β ι) :=
  match boundsOf ops ks with
  | none => []
  | some b => [.branch b ks]

/-- `addParentNodesFromVerticalSlice` -/
def parentsOfSlice (ops : Ops β) (cap : Nat) (sortY : List (Node β ι) → List (Node β ι))
    (slice : List (Node β ι)) : List (Node β ι) :=
  (chunks cap (sortY slice)).flatMap (mkBranch ops)

/-- `createParentNodes` -/
def createParents (ops : Ops β) (cap : Nat) (sortX sortY : List (Node β ι) → List (Node β ι))
    (ns : List (Node β ι)) : List (Node β ι) :=
  let n := ns.length
  let s := sliceCount cap n
  let per := sliceCapacity n s
  (takeSlices per s (sortX ns)).flatMap (parentsOfSlice ops cap sortY)

/-- the `while (number > 1)` loop of `build()`; `fuel` = number of leaves is always enough
(theorem `buildLoop_single`) -/
def buildLoop (ops : Ops β) (cap : Nat) (sortX sortY : List (Node β ι) → List (Node β ι)) :
    Nat → List (Node β ι) → List (Node β ι)
  | 0, ns => ns
  | f + 1, ns => if ns.length ≤ 1 then ns else buildLoop ops cap sortX sortY f (createParents ops cap sortX sortY ns)

/-- `root = &nodes.back()` -/
def buildRoot (ops : Ops β) (cap : Nat) (sortX sortY : List (Node β ι) → List (Node β ι))
    (es : List (Entry β ι)) : Option (Node β ι) :=
  (buildLoop ops cap sortX sortY es.length (es.map Node.leaf)).getLast?

/-- `treeSize(numLeafNodes)`: the number of vector slots reserved before building -/
def levelParents (cap per : Nat) : Nat → Nat → Nat
  | 0, _ => 0
  | s + 1, rem => ceilDiv (min rem per) cap + levelParents cap per s (rem - min rem per)

def treeSizeLoop (cap : Nat) : Nat → Nat → Nat
  | 0, _ => 0
  | f + 1, n =>
    if n ≤ 1 then 0 else
      let s := sliceCount cap n
      let p := levelParents cap (sliceCapacity n s) s n
      p + treeSizeLoop cap f p

def treeSize (cap n : Nat) : Nat := n + treeSizeLoop cap n n

mutual
  def Node.numNodes : Node β ι → Nat
    | .leaf _ => 1
    | .branch _ ks => 1 + numNodesL ks
  def numNodesL : List (Node β ι) → Nat
    | [] => 0
    | k :: ks => k.numNodes + numNodesL ks
end

/-! ### whole-tree state machine (what the C API `GEOSSTRtree_*` exposes) -/

structure Tree (β ι : Type) where
  cap : Nat
  pending : List (Entry β ι)        -- leaf nodes appended so far (tree not built)
  root : Option (Node β ι)          -- `some` once built
  built : Bool

def Tree.empty (cap : Nat) : Tree β ι := { cap, pending := [], root := none, built := false }

structure Cfg (β ι : Type) where
  ops : Ops β
  isNull : β → Bool
  sortX : List (Node β ι) → List (Node β ι)
  sortY : List (Node β ι) → List (Node β ι)

/-- `insert(itemEnv, item)`; null envelopes are silently ignored -/
def Tree.insert (c : Cfg β ι) (t : Tree β ι) (b : β) (i : ι) : Tree β ι :=
  if c.isNull b then t else { t with pending := t.pending ++ [⟨b, i, false⟩] }

/-- `build()`: no-op when built or when there are no nodes -/
def Tree.build (c : Cfg β ι) (t : Tree β ι) : Tree β ι :=
  if t.built then t
  else if t.pending.isEmpty then t
  else { t with root := buildRoot c.ops t.cap c.sortX c.sortY t.pending, built := true }

def Tree.query (c : Cfg β ι) (t : Tree β ι) (q : β) : Tree β ι × List ι :=
  let t' := t.build c
  (t', queryRoot c.ops q t'.root)

def Tree.remove [BEq ι] (c : Cfg β ι) (t : Tree β ι) (q : β) (i : ι) : Tree β ι × Bool :=
  let t' := t.build c
  match removeRoot c.ops q i t'.root with
  | some r => ({ t' with root := some r }, true)
  | none => (t', false)

/-- `iterate(func)`: walks the first `numItems` slots (or all slots when not built), skipping deleted -/
def Tree.iterate (t : Tree β ι) : List ι :=
  let es := if t.built then (match t.root with | some r => r.leaves | none => []) else t.pending
  (es.filter (fun e => !e.deleted)).map (·.item)

/-! ### `items()` : the C++ forward iterator `TemplateSTRtreeImpl::Iterator` over the first `numItems` slots

The iterator is the pair `(m_iter, m_end)`; it is modelled by the remaining range `[m_iter, m_end)`. -/

/-- `Iterator::skipDeleted()`: `while (m_iter != m_end && m_iter->isDeleted()) m_iter++;` -/
def skipDeleted : List (Entry β ι) → List (Entry β ι)
  | [] => []
  | e :: r => if e.deleted then skipDeleted r else e :: r

/-- `Items::begin()`: the constructor of `Iterator` calls `skipDeleted()` -/
def itBegin (leaves : List (Entry β ι)) : List (Entry β ι) := skipDeleted leaves

/-- `Iterator::operator++`: `m_iter++; skipDeleted();` -/
def itNext : List (Entry β ι) → List (Entry β ι)
  | [] => []
  | _ :: r => skipDeleted r

/-- `Iterator::operator*`: `m_iter->getItem()` (`none`: dereferencing the end iterator) -/
def itDeref : List (Entry β ι) → Option ι
  | [] => none
  | e :: _ => some e.item

/-- `for (auto it = items.begin(); it != items.end(); ++it) f(*it);` — `it != end` compares `m_iter` with
`m_end`, i.e. tests the remaining range for emptiness; `fuel` bounds the iterations -/
def itemsLoop : Nat → List (Entry β ι) → List ι
  | 0, _ => []
  | _ + 1, [] => []
  | f + 1, e :: r => e.item :: itemsLoop f (skipDeleted r)

/-- `items()` (which builds the tree first) followed by a range-for over the result -/
def Tree.items (c : Cfg β ι) (t : Tree β ι) : Tree β ι × List ι :=
  let t' := t.build c
  let leaves := if t'.built then (match t'.root with | some r => r.leaves | none => []) else []
  (t', itemsLoop leaves.length (itBegin leaves))

/-- abstraction: the live entries -/
def Tree.live (t : Tree β ι) : List (Entry β ι) :=
  (if t.built then (match t.root with | some r => r.leaves | none => []) else t.pending).filter (fun e => !e.deleted)

/-! ### nearest neighbour (best-first branch and bound, `TemplateSTRtreeDistance::nearestNeighbour`
for the (tree, single item) form used by `GEOSSTRtree_nearest_generic`) -/

/-- A queue element: a tree node paired with the fixed query leaf, with its key
(`lb` for composite nodes = envelope distance, exact item distance for leaves). -/
structure QE (β ι D : Type) where
  key : D
  node : Node β ι

def insertSorted {β ι D : Type} (le : D → D → Bool) (x : QE β ι D) : List (QE β ι D) → List (QE β ι D)
  | [] => [x]
  | y :: ys => if le x.key y.key then x :: y :: ys else y :: insertSorted le x ys

/-- `expand`: push the children of a composite node (after fix F4: deleted leaves are skipped;
the `sp.getDistance() < minDistance` pruning is kept) -/
def expandKids {D : Type} (le : D → D → Bool) (lb : β → D) (dist : ι → D) (best : Option D)
    (ks : List (Node β ι)) (q : List (QE β ι D)) : List (QE β ι D) :=
  ks.foldl (fun q k =>
    match k with
    | .leaf e =>
        if e.deleted then q else
          let d := dist e.item
          (match best with
           | some m => if le m d then q else insertSorted le ⟨d, k⟩ q
           | none => insertSorted le ⟨d, k⟩ q)
    | .branch b _ =>
        let d := lb b
        (match best with
         | some m => if le m d then q else insertSorted le ⟨d, k⟩ q
         | none => insertSorted le ⟨d, k⟩ q)) q

/-- main loop; `best` = current (distance, item). -/
def nnLoop {D : Type} (le : D → D → Bool) (lb : β → D) (dist : ι → D) :
    Nat → List (QE β ι D) → Option (D × ι) → Option (D × ι)
  | 0, _, best => best
  | _ + 1, [], best => best
  | f + 1, x :: q, best =>
    match best with
    | some (m, _) =>
      if le m x.key then best   -- currentDistance >= distanceLowerBound : done
      else
        (match x.node with
         | .leaf e => nnLoop le lb dist f q (some (x.key, e.item))
         | .branch _ ks => nnLoop le lb dist f (expandKids le lb dist (some m) ks q) best)
    | none =>
        (match x.node with
         | .leaf e => nnLoop le lb dist f q (some (x.key, e.item))
         | .branch _ ks => nnLoop le lb dist f (expandKids le lb dist none ks q) best)

def nearestRoot {D : Type} (le : D → D → Bool) (lb : β → D) (dist : ι → D) (fuel : Nat) :
    Option (Node β ι) → Option (D × ι)
  | none => none
  | some (.leaf e) => if e.deleted then none else some (dist e.item, e.item)
  | some (.branch b ks) => nnLoop le lb dist fuel [⟨lb b, .branch b ks⟩] none

end GeosModel.STR
