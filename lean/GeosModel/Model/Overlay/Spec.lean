import GeosModel.Model.Relate.Ref
import GeosModel.Model.Overlay.Core
/-!
SPEC of C03: the exact point-set oracle for overlay results.

Inputs `A`, `B` and the result `R` GEOS returned are integer `Flat`s over one common power of two.  All segments
of the three geometries are split at every point where anything meets them (`splitParams` of Model/Relate/Ref.lean),
which gives the cells of the planar arrangement:

* 2-cells (faces)   — sampled as the left and the right side of every 1-cell (`sideIn`);
* 1-cells           — the open sub-segments;
* 0-cells (nodes)   — split points and isolated points.

A geometry is a *closed* point set (areas with their rings, lines with their end points).  A cell lies either inside
or outside each closed set; `inA`, `inB`, `inR` below are these closure memberships.  The specification of an overlay
result is

    R  =  closure ( boolop op A B )

evaluated cell by cell: a cell belongs to the closure iff it satisfies the Boolean combination itself or lies on the
border of a higher-dimensional cell that does (`Cell.expected`, `Node.expected`).  For union and intersection the closure
adds nothing (`Props/C03.lean: expected_union`, `expected_inter`); for difference and symmetric difference it is the
documented OverlayNG semantics (area − line = area, line − area = the part of the line outside the closed area, …).
GeometryCollections are read with union semantics (`sideIn`: inside *some* polygon).

`acceptsExact` demands equality on every cell; the driver uses it (through `accepts` with `T.exact`) for grid-exact
inputs (`gridExact`) all of whose intersection points are representable (`needsNewVertex = false`).  Otherwise the
result cannot be exact; `acceptsTol` then excuses a mismatching cell only inside the tolerance band of the property
(1e-9 × largest input ordinate; squared distances compared exactly in `Int`):

* a face mismatch must not contain a sample point farther than the tolerance from every input segment and point
  (`faceSamples`: points at 3·tol, 30·tol, len/64, len/8 on that side of the 1-cell, re-located from scratch);
* a 1-cell / node that is in R but not specified is excused iff the specified result passes within tol of its sample
  point, or membership in an input is undetermined within the tolerance (`opts`: the sample is within tol of a ring of
  that input, or within tol of – but not exactly on – one of its lines / points) and some resolution of the
  undetermined bits makes it specified;
* a specified 1-cell / node missing from R is excused iff R passes within tol of its sample point (for a node where a
  segment of A and a segment of B cross at angle θ: within tol / sin θ, the distance by which a tol-perturbation of the
  inputs moves that crossing, `crossSin2`), or some resolution of the undetermined bits makes it unspecified.

Core Lean only.
-/
namespace GeosModel.Overlay
open GeosModel.Kernel GeosModel.Relate

/-! ### the arrangement of three geometries -/

/-- one 1-cell with the memberships of its two sides and of itself -/
structure Cell where
  a : HPt
  b : HPt
  m : HPt          -- midpoint (sample of the 1-cell)
  s : Seg          -- carrier segment
  lm : Q           -- parameter of `m` on `s`
  lA : Bool
  rA : Bool
  lB : Bool
  rB : Bool
  lR : Bool
  rR : Bool
  onA : Bool       -- `m` lies on a line of A
  onB : Bool
  onR : Bool
deriving Repr

def canonSeg (s : Seg) : Seg :=
  if s.p.x < s.q.x || (s.p.x == s.q.x && s.p.y ≤ s.q.y) then s else ⟨s.q, s.p⟩

def allSegs3 (A B R : Flat) : List Seg := ((A.segs ++ B.segs ++ R.segs).map canonSeg).eraseDups
def allPts3 (A B R : Flat) : List Pt := A.pts ++ B.pts ++ R.pts

def cellsOn (A B R : Flat) (segs : List Seg) (pts : List Pt) (s : Seg) : List Cell :=
  let ps := splitParams s segs pts
  (ps.zip ps.tail).map fun (l1, l2) =>
    let lm := Q.mid l1 l2
    let m := s.at lm
    { a := s.at l1, b := s.at l2, m := m, s := s, lm := lm,
      lA := sideIn A.polys s lm true, rA := sideIn A.polys s lm false,
      lB := sideIn B.polys s lm true, rB := sideIn B.polys s lm false,
      lR := sideIn R.polys s lm true, rR := sideIn R.polys s lm false,
      onA := onAnyLine A m, onB := onAnyLine B m, onR := onAnyLine R m }

def cells (A B R : Flat) : List Cell :=
  let segs := allSegs3 A B R
  let pts := allPts3 A B R
  segs.flatMap (cellsOn A B R segs pts)

namespace Cell
/-- closure membership of the 1-cell -/
def inA (c : Cell) : Bool := c.lA || c.rA || c.onA
def inB (c : Cell) : Bool := c.lB || c.rB || c.onB
def inR (c : Cell) : Bool := c.lR || c.rR || c.onR
/-- the Boolean combination on the left / right face and on the 1-cell itself -/
def faceL (op : Op) (c : Cell) : Bool := boolop op c.lA c.lB
def faceR (op : Op) (c : Cell) : Bool := boolop op c.rA c.rB
def sMem (op : Op) (c : Cell) : Bool := boolop op c.inA c.inB
/-- the 1-cell belongs to `closure (boolop op A B)` -/
def expected (op : Op) (c : Cell) : Bool := c.sMem op || c.faceL op || c.faceR op
/-- exact agreement of the result on both faces and on the 1-cell -/
def ok (op : Op) (c : Cell) : Bool :=
  (c.lR == c.faceL op) && (c.rR == c.faceR op) && (c.inR == c.expected op)
end Cell

/-- a 0-cell with its closure memberships -/
structure Node where
  v : HPt
  inA : Bool
  inB : Bool
  inR : Bool
  expected : Bool
deriving Repr

def isPtOf (X : Flat) (v : HPt) : Bool := X.pts.any fun p => HPt.ofPt p == v

/-- closure membership of a node: an incident face inside an area, on a line, a point of the geometry, or (isolated
node) strictly inside an area -/
def inClNode (X : Flat) (v : HPt) (sides : List Bool) (isolated : Bool) : Bool :=
  sides.any id || onAnyLine X v || isPtOf X v || (isolated && X.polys.any (inPolyH v))

def mkNode (op : Op) (A B R : Flat) (cs : List Cell) (v : HPt) : Node :=
  let inc := cs.filter fun c => c.a == v || c.b == v
  let iso := inc.isEmpty
  let a := inClNode A v (inc.flatMap fun c => [c.lA, c.rA]) iso
  let b := inClNode B v (inc.flatMap fun c => [c.lB, c.rB]) iso
  let r := inClNode R v (inc.flatMap fun c => [c.lR, c.rR]) iso
  { v := v, inA := a, inB := b, inR := r,
    expected := boolop op a b || inc.any (·.expected op) ||
                (iso && boolop op (A.polys.any (inPolyH v)) (B.polys.any (inPolyH v))) }

def nodePts (A B R : Flat) (cs : List Cell) : List HPt :=
  ((cs.flatMap fun c => [c.a, c.b]) ++ (allPts3 A B R).map HPt.ofPt).eraseDups

def nodes (op : Op) (A B R : Flat) (cs : List Cell) : List Node :=
  (nodePts A B R cs).map (mkNode op A B R cs)

def Node.ok (n : Node) : Bool := n.inR == n.expected

/-- exact check: every face, 1-cell and node of the arrangement has the membership the specification assigns -/
def acceptsExact (op : Op) (A B R : Flat) : Bool :=
  let cs := cells A B R
  cs.all (Cell.ok op) && (nodes op A B R cs).all Node.ok

/-! ### tolerance band -/

structure Tol where
  mag : Int        -- largest |ordinate| of the inputs (integer units)
  exact : Bool     -- the overlay needs no new vertex: no tolerance at all
deriving Repr

/-- squared distance from a homogeneous point to a closed segment, as a fraction `(num, den)`, `den > 0` -/
def sqDistSeg (p : HPt) (s : Seg) : Int × Int :=
  let ax := p.x - s.p.x * p.w; let ay := p.y - s.p.y * p.w
  let bx := p.x - s.q.x * p.w; let by' := p.y - s.q.y * p.w
  let dx := s.q.x - s.p.x; let dy := s.q.y - s.p.y
  let len2 := dx * dx + dy * dy
  let t := ax * dx + ay * dy                      -- = w · (p − s.p)·d
  if len2 == 0 || t ≤ 0 then (ax * ax + ay * ay, p.w * p.w)
  else if t ≥ p.w * len2 then (bx * bx + by' * by', p.w * p.w)
  else let d := detH s.p s.q p; (d * d, p.w * p.w * len2)

/-- `dist(p, s) ≤ 1e-9 · mag`, exactly -/
def withinTol (T : Tol) (p : HPt) (s : Seg) : Bool :=
  let (n, d) := sqDistSeg p s
  decide (n * 1000000000000000000 ≤ T.mag * T.mag * d)

def ptWithinTol (T : Tol) (p : HPt) (q : Pt) : Bool := withinTol T p ⟨q, q⟩

def nearInputs (T : Tol) (A B : Flat) (p : HPt) : Bool :=
  A.segs.any (withinTol T p) || B.segs.any (withinTol T p) || A.pts.any (ptWithinTol T p) || B.pts.any (ptWithinTol T p)

/-- closure membership of an arbitrary rational point, from scratch -/
def inClPt (X : Flat) (p : HPt) : Bool :=
  X.segs.any (fun s => onSegH s.p s.q p) || isPtOf X p || X.polys.any (inPolyH p)

/-- integer square root (floor up to rounding of the Newton iteration; only used to place sample points) -/
def isqrt (n : Nat) : Nat :=
  if n < 2 then n else
  let x0 := 2 ^ (n.log2 / 2 + 1)
  (List.range 8).foldl (fun x _ => (x + n / x) / 2) x0

/-- sample points on the given side of a 1-cell: at 3·tol, 30·tol, len/64 and len/8 from its midpoint -/
def faceSamples (T : Tol) (c : Cell) (left : Bool) : List HPt :=
  let dx := c.s.q.x - c.s.p.x; let dy := c.s.q.y - c.s.p.y
  let nx := if left then -dy else dy
  let ny := if left then dx else -dx
  let len : Int := max 1 (isqrt (dx * dx + dy * dy).toNat)
  -- m + n · k / (1e9 · len)  has distance  k · 1e-9  (k in units of mag: k = 3·mag, 30·mag)
  let near (k : Int) : HPt :=
    let D := 1000000000 * len
    HPt.norm ⟨c.m.x * D + nx * k * T.mag * c.m.w, c.m.y * D + ny * k * T.mag * c.m.w, c.m.w * D⟩
  let deep (k : Int) : HPt := HPt.norm ⟨c.m.x * k + nx * c.m.w, c.m.y * k + ny * c.m.w, c.m.w * k⟩
  [near 3, near 30, deep 64, deep 8]

/-- a sample point is fine when it is inside the tolerance band of the inputs or its membership in R is the Boolean
combination of its (then unambiguous) memberships in A and B -/
def sampleOK (T : Tol) (op : Op) (A B R : Flat) (p : HPt) : Bool :=
  nearInputs T A B p || (inClPt R p == boolop op (A.polys.any (inPolyH p)) (B.polys.any (inPolyH p)))

def faceExcused (T : Tol) (op : Op) (A B R : Flat) (c : Cell) (left : Bool) : Bool :=
  (faceSamples T c left).all (sampleOK T op A B R)

/-- the possible values of "p ∈ closure X" when distances below the tolerance are not trusted -/
def opts (T : Tol) (X : Flat) (p : HPt) (firm : Bool) : List Bool :=
  if X.ringSegs.any (withinTol T p) then [true, false]
  else if onAnyLine X p || isPtOf X p then [firm]
  else if X.lineSegs.any (withinTol T p) || X.pts.any (ptWithinTol T p) then [true, false]
  else [firm]

def nearR (T : Tol) (R : Flat) (p : HPt) : Bool := R.segs.any (withinTol T p) || R.pts.any (ptWithinTol T p)

/-- `dist(p, [a,b]) ≤ 1e-9 · mag` for a sub-segment with rational end points (all three brought to one denominator) -/
def withinTolH (T : Tol) (p a b : HPt) : Bool :=
  let P : HPt := ⟨p.x * a.w * b.w, p.y * a.w * b.w, 1⟩
  let s : Seg := ⟨⟨a.x * p.w * b.w, a.y * p.w * b.w⟩, ⟨b.x * p.w * a.w, b.y * p.w * a.w⟩⟩
  let W := p.w * a.w * b.w
  let (n, d) := sqDistSeg P s
  decide (n * 1000000000000000000 ≤ T.mag * T.mag * d * W * W)

/-- the 1-cells and nodes that belong to the specified result (as closed sub-segments / points) -/
def expectedLocus (op : Op) (cs : List Cell) (ns : List Node) : List (HPt × HPt) :=
  (cs.filter (·.expected op)).map (fun c => (c.a, c.b)) ++ (ns.filter (·.expected)).map (fun n => (n.v, n.v))

/-- conditioning of a node: the smallest `sin²` of the angle between a segment of A through `p` and a segment of B
through `p` that cross transversally there, as a fraction `(num, den)`; `(1, 1)` when there is no such pair.
A perturbation `δ` of the inputs moves such a crossing point by `δ / sin θ`. -/
def crossSin2 (A B : Flat) (p : HPt) : Int × Int :=
  let sa := A.segs.filter fun s => onSegH s.p s.q p
  let sb := B.segs.filter fun s => onSegH s.p s.q p
  sa.foldl (fun acc s => sb.foldl (fun (acc : Int × Int) t =>
    let c := (s.q.x - s.p.x) * (t.q.y - t.p.y) - (s.q.y - s.p.y) * (t.q.x - t.p.x)
    let n := c * c
    let d := s.sqLen * t.sqLen
    if n == 0 then acc else if n * acc.2 < acc.1 * d then (n, d) else acc) acc) (1, 1)

/-- `dist(p, s) ≤ 1e-9 · mag / sin θ` with `sin² θ = sn / sd` -/
def withinTolAmp (T : Tol) (sn sd : Int) (p : HPt) (s : Seg) : Bool :=
  let (n, d) := sqDistSeg p s
  decide (n * 1000000000000000000 * sn ≤ T.mag * T.mag * d * sd)

def nearRAmp (T : Tol) (sn sd : Int) (R : Flat) (p : HPt) : Bool :=
  R.segs.any (withinTolAmp T sn sd p) || R.pts.any (fun q => withinTolAmp T sn sd p ⟨q, q⟩)

/-- excuse for a mismatching 1-cell / node sampled at `p` (`inR` = membership found in R; expected = `!inR`):
* found in R, not expected: the specified result passes within tol of `p`, or the undetermined bits can make `p` expected;
* expected, not found: R passes within tol of `p` (for a node where A and B cross at angle θ: within tol / sin θ, the
  distance by which a tol-perturbation of the inputs moves the crossing), or the undetermined bits can make `p` not expected. -/
def lowerExcused (T : Tol) (op : Op) (A B R : Flat) (E : List (HPt × HPt)) (p : HPt) (inA inB inR : Bool) : Bool :=
  let oa := opts T A p inA
  let ob := opts T B p inB
  if inR then E.any (fun e => withinTolH T p e.1 e.2) || oa.any fun a => ob.any fun b => boolop op a b
  else
    let (sn, sd) := crossSin2 A B p
    nearRAmp T sn sd R p || oa.any fun a => ob.any fun b => !boolop op a b

def Cell.okTol (T : Tol) (op : Op) (A B R : Flat) (E : List (HPt × HPt)) (c : Cell) : Bool :=
  ((c.lR == c.faceL op) || faceExcused T op A B R c true) &&
  ((c.rR == c.faceR op) || faceExcused T op A B R c false) &&
  ((c.inR == c.expected op) || lowerExcused T op A B R E c.m c.inA c.inB c.inR)

def Node.okTol (T : Tol) (op : Op) (A B R : Flat) (E : List (HPt × HPt)) (n : Node) : Bool :=
  n.ok || lowerExcused T op A B R E n.v n.inA n.inB n.inR

def acceptsTol (T : Tol) (op : Op) (A B R : Flat) : Bool :=
  let cs := cells A B R
  let ns := nodes op A B R cs
  let E := expectedLocus op cs ns
  cs.all (Cell.okTol T op A B R E) && ns.all (Node.okTol T op A B R E)

/-- the checker: exact when the overlay needs no new vertex, inside the tolerance band otherwise -/
def accepts (T : Tol) (op : Op) (A B R : Flat) : Bool :=
  if T.exact then acceptsExact op A B R else acceptsTol T op A B R

/-! ### does the overlay of A and B need a vertex that is not representable? -/

/-- `n` without its factors of two (fuel = bit length) -/
def oddPartAux : Nat → Nat → Nat
  | 0, n => n
  | fuel + 1, n => if n != 0 && n % 2 == 0 then oddPartAux fuel (n / 2) else n

def oddPart (n : Nat) : Nat := oddPartAux (n.log2 + 1) n

/-- an integer number of units `2^e0` is a binary64 value iff its odd part has at most 53 bits (exponent range aside) -/
def representable (x : Int) : Bool := decide (oddPart x.natAbs < 9007199254740992)

/-- number of trailing zero bits (0 for 0) -/
def trailingZeros (n : Nat) : Nat := if n == 0 then 0 else (n / oddPart n).log2

/-- "grid-exact" inputs (the Grid hypothesis of DESIGN section 2): all ordinates are integer multiples of one power of
two with multipliers below 2^27 -/
def gridExact (coords : List Int) : Bool :=
  let nz := (coords.map Int.natAbs).filter (· != 0)
  match nz with
  | [] => true
  | a :: r =>
    let tz := r.foldl (fun t n => min t (trailingZeros n)) (trailingZeros a)
    nz.all fun n => decide (n / 2 ^ tz < 134217728)

/-- some intersection point of two input segments (or of a segment and an input point) is not representable -/
def needsNewVertex (A B : Flat) : Bool :=
  let segs := ((A.segs ++ B.segs).map canonSeg).eraseDups
  let pts := A.pts ++ B.pts
  segs.any fun s => (splitParams s segs pts).any fun l =>
    let v := s.at l
    v.w != 1 || !representable v.x || !representable v.y

/-! ### light exact validity of the result -/

def ringClosed (r : List Pt) : Bool :=
  decide (r.length ≥ 4) && (match r.head?, r.getLast? with | some a, some b => a == b | _, _ => false)

/-- two ring segments cross properly (a point interior to both) -/
def properCross (s t : Seg) : Bool := segRel s.p s.q t.p t.q == SegRel.point true

def noProperCrossings : List Seg → Bool
  | [] => true
  | s :: r => r.all (fun t => !properCross s t) && noProperCrossings r

/-- rings closed with ≥ 4 points, no two ring segments of the whole result cross properly, lines have ≥ 2 points -/
def lightValid (R : Flat) : Bool :=
  R.polys.all (fun p => !p.isEmpty && p.all ringClosed) && noProperCrossings R.ringSegs &&
  R.lines.all (fun l => decide (l.length ≥ 2))

/-! ### exact areas -/

/-- twice the area of a polygon given as shell :: holes -/
def polyArea2 (p : List (List Pt)) : Int :=
  match p with
  | [] => 0
  | sh :: hs => (area2 sh).natAbs - (hs.map fun h => ((area2 h).natAbs : Int)).sum

/-- twice the area of a (valid, hence non-overlapping) polygonal geometry -/
def flatArea2 (X : Flat) : Int := (X.polys.map polyArea2).sum

/-- L1 length of all ring segments (an upper bound of the perimeter) -/
def ringLenL1 (X : Flat) : Int := (X.ringSegs.map fun s => ((s.q.x - s.p.x).natAbs + (s.q.y - s.p.y).natAbs : Int)).sum

end GeosModel.Overlay
