import GeosModel.Base.Env
import GeosModel.Base.Kernel
/-!
C03 — the input side of `OverlayNG`: what `EdgeNodingBuilder` feeds to the noder.

Faithful models, branch by branch, of

* `LineLimiter` (src/operation/overlayng/LineLimiter.cpp): `limit`, `addPoint`, `addOutside`,
  `isLastSegmentIntersecting`, `startSection`, `finishSection` — as a state machine over the three members
  `lastOutside`, `ptList`, `sections`; the OBJECT (one limiter is reused for every line of an operand) is `runObj`;
* `RobustClipEnvelopeComputer` (RobustClipEnvelopeComputer.cpp): `addSegment`, `addPolygonRing`, `addPolygon`
  (shell AND holes), `getEnvelope(a, b, target)`;
* `RingClipper` (RingClipper.cpp): `clip`, `clipToBoxEdge`, `isInsideEdge` — generic in the point type and in the
  function that computes the crossing point (the driver instantiates it with binary64 arithmetic);
* `EdgeNodingBuilder` (EdgeNodingBuilder.cpp): `isClippedCompletely`, `clip`, `removeRepeatedPoints`,
  `computeDepthDelta` (orientation of the ORIGINAL ring), `isToBeLimited`, `addPolygonRing`, `addLine`.

Ordinates are integers: any order-preserving image of the doubles (`F64.key`), so `≤` is `<=` on the doubles.
Core Lean only.
-/
namespace GeosModel.Overlay.Clip
open GeosModel GeosModel.Kernel

/-! ### envelope primitives (include/geos/geom/Envelope.h) on a non-null box -/

/-- `Envelope::intersects(const CoordinateXY&)`: the closed box contains the point -/
def boxHasPt (b : Box) (p : Pt) : Bool :=
  decide (p.x ≤ b.maxx) && decide (p.x ≥ b.minx) && decide (p.y ≤ b.maxy) && decide (p.y ≥ b.miny)

/-- `Envelope::intersects(const CoordinateXY& a, const CoordinateXY& b)`: the envelope of the segment meets the box -/
def boxMeetsSeg (b : Box) (p q : Pt) : Bool :=
  let envminx := if p.x < q.x then p.x else q.x
  if !decide (b.maxx ≥ envminx) then false else
  let envmaxx := if p.x > q.x then p.x else q.x
  if envmaxx < b.minx then false else
  let envminy := if p.y < q.y then p.y else q.y
  if envminy > b.maxy then false else
  let envmaxy := if p.y > q.y then p.y else q.y
  if envmaxy < b.miny then false else true

/-- `Envelope::expandToInclude(x, y)` on a non-null envelope -/
def expandPt (b : Box) (p : Pt) : Box :=
  { minx := if p.x < b.minx then p.x else b.minx
    maxx := if p.x > b.maxx then p.x else b.maxx
    miny := if p.y < b.miny then p.y else b.miny
    maxy := if p.y > b.maxy then p.y else b.maxy }

/-- envelope of a non-empty point list (`getEnvelopeInternal` of a ring / line) -/
def envOfPts : List Pt → Env
  | [] => none
  | p :: r => some (r.foldl expandPt ⟨p.x, p.x, p.y, p.y⟩)

/-! ### LineLimiter -/

/-- the three mutable members; `ptList` and every finished section are kept in REVERSE order while being built -/
structure LState (P : Type) where
  lastOutside : Option P := none
  ptList : Option (List P) := none
  sections : List (List P) := []

section Limiter
variable {P : Type} [DecidableEq P] (inside : P → Bool) (segMeets : P → P → Bool)

/-- `CoordinateSequence::add(c, allowRepeated = false)` on a reversed list -/
def pushNR (l : List P) (p : P) : List P :=
  match l with
  | q :: _ => if q = p then l else p :: l
  | [] => [p]

/-- `addPoint`: `startSection()` (open a list if none is open, flush `lastOutside` into it, clear it) then add `p` -/
def addPoint (s : LState P) (p : P) : LState P :=
  let l := s.ptList.getD []
  let l := match s.lastOutside with
    | some q => pushNR l q
    | none => l
  { s with ptList := some (pushNR l p), lastOutside := none }

/-- `finishSection`: returns at once when no section is open — `lastOutside` is then NOT cleared -/
def finishSection (s : LState P) : LState P :=
  match s.ptList with
  | none => s
  | some l =>
    let l := match s.lastOutside with
      | some q => pushNR l q
      | none => l
    { lastOutside := none, ptList := none, sections := l.reverse :: s.sections }

/-- `isLastSegmentIntersecting` -/
def isLastSegmentIntersecting (s : LState P) (p : P) : Bool :=
  match s.lastOutside with
  | none => s.ptList.isSome
  | some q => segMeets q p

/-- `addOutside` -/
def addOutside (s : LState P) (p : P) : LState P :=
  let s' :=
    if !isLastSegmentIntersecting segMeets s p then finishSection s
    else
      let s1 := match s.lastOutside with
        | some q => addPoint s q
        | none => s
      addPoint s1 p
  { s' with lastOutside := some p }

/-- one iteration of the loop of `limit` -/
def step (s : LState P) (p : P) : LState P :=
  if inside p then addPoint s p else addOutside segMeets s p

/-- `limit` as run by the OBJECT in state `s`: the three members are reset, the points are fed, the last section is
finished.  The state that is left behind is what the next call finds. -/
def runObj (_s : LState P) (pts : List P) : LState P :=
  finishSection (pts.foldl (step inside segMeets) ⟨none, none, []⟩)

/-- the sections returned for one line -/
def limit (pts : List P) : List (List P) := (runObj inside segMeets ⟨none, none, []⟩ pts).sections.reverse

/-- one limiter used for a sequence of lines (EdgeNodingBuilder keeps one per overlay) -/
def limitSeq : LState P → List (List P) → List (List (List P))
  | _, [] => []
  | s, l :: r => let s' := runObj inside segMeets s l; s'.sections.reverse :: limitSeq s' r

/-- the variant that does NOT reset `lastOutside` at the start of a run (only used to show that the reset matters) -/
def runObjNoReset (s : LState P) (pts : List P) : LState P :=
  finishSection (pts.foldl (step inside segMeets) ⟨s.lastOutside, none, []⟩)

end Limiter

/-! ### RobustClipEnvelopeComputer -/

/-- consecutive pairs `(seq[i-1], seq[i])`, `i = 1 .. size-1` -/
def pairs : List Pt → List (Pt × Pt)
  | p :: q :: r => (p, q) :: pairs (q :: r)
  | _ => []

/-- `addSegment` -/
def addSegment (target clip : Box) (pq : Pt × Pt) : Box :=
  if boxMeetsSeg target pq.1 pq.2 then expandPt (expandPt clip pq.1) pq.2 else clip

/-- `addPolygonRing` (an empty ring has no pairs) -/
def addRing (target clip : Box) (ring : List Pt) : Box := (pairs ring).foldl (addSegment target) clip

/-- `addPolygon`: the shell and every hole (a polygon is the list shell :: holes) -/
def addPolygon (target clip : Box) (poly : List (List Pt)) : Box := poly.foldl (addRing target) clip

/-- `RobustClipEnvelopeComputer::getEnvelope(a, b, target)`; `a`, `b` are given as the lists of their non-empty polygons
in traversal order (`add` / `addCollection` recurse through every collection and ignore lines and points) -/
def robustClipEnv (target : Box) (a b : List (List (List Pt))) : Box :=
  b.foldl (addPolygon target) (a.foldl (addPolygon target) target)

/-! ### RingClipper -/

/-- BOX_BOTTOM = 0, BOX_RIGHT = 1, BOX_TOP = 2, BOX_LEFT = 3 -/
def isInsideEdge (b : Box) (p : Pt) (edge : Nat) : Bool :=
  if edge == 0 then decide (p.y > b.miny)
  else if edge == 1 then decide (p.x < b.maxx)
  else if edge == 2 then decide (p.y < b.maxy)
  else decide (p.x > b.minx)

section Clipper
variable {P : Type} (inEdge : P → Bool) (ix : P → P → P)

/-- the loop of `clipToBoxEdge` for one box edge; `p0` is the previous point (initially the last one); output reversed -/
def clipLoop : P → List P → List P → List P
  | _, [], acc => acc
  | p0, p1 :: r, acc =>
    let acc :=
      if inEdge p1 then
        let acc := if !inEdge p0 then ix p0 p1 :: acc else acc
        p1 :: acc
      else if inEdge p0 then ix p0 p1 :: acc
      else acc
    clipLoop p1 r acc

def clipToBoxEdgeOpen (pts : List P) : List P :=
  match pts.getLast? with
  | none => []
  | some last => (clipLoop inEdge ix last pts []).reverse

end Clipper

/-- `ptsClip->add(pt, false)` is used throughout `clipToBoxEdge`: repeated points are dropped as they are added;
`closeRing` appends the start point when the last point differs from it -/
def dedupAdj {P : Type} [DecidableEq P] : List P → List P
  | p :: q :: r => if p = q then dedupAdj (q :: r) else p :: dedupAdj (q :: r)
  | l => l

def closeRing {P : Type} [DecidableEq P] (l : List P) : List P :=
  match l, l.getLast? with
  | s :: _, some e => if s = e then l else l ++ [s]
  | _, _ => l

/-- `RingClipper::clip`: the four edges in turn (stopping when nothing is left), the ring closed after the last one.
`ix edge a b` is the crossing point of segment a–b with the line of box edge `edge`. -/
def ringClip (b : Box) (ix : Nat → Pt → Pt → Pt) (pts : List Pt) : List Pt :=
  let e (k : Nat) (l : List Pt) : List Pt := dedupAdj (clipToBoxEdgeOpen (fun p => isInsideEdge b p k) (ix k) l)
  let l0 := e 0 pts
  if l0.isEmpty then l0 else
  let l1 := e 1 l0
  if l1.isEmpty then l1 else
  let l2 := e 2 l1
  if l2.isEmpty then l2 else
  closeRing (e 3 l2)

/-! ### EdgeNodingBuilder -/

/-- `computeDepthDelta(ring, isHole)`: `isCCW` is `Orientation::isCCW` of the ORIGINAL ring (model: `CCW.isCCW`, C07);
canonical orientation: shells clockwise, holes counter-clockwise -/
def depthDelta (isCCW isHole : Bool) : Int :=
  let isOriented := if !isHole then !isCCW else isCCW
  if isOriented then 1 else -1

/-- `isClippedCompletely(env)` -/
def isClippedCompletely (clip : Option Box) (env : Env) : Bool :=
  match clip with
  | none => false
  | some c => !Env.inter (some c) env

/-- what is handed to the noder for one source ring / line -/
structure EdgeIn where
  pts : List Pt
  dim : Nat            -- 2 = area edge, 1 = line
  depthDelta : Int     -- 0 for lines
  isHole : Bool
deriving DecidableEq, Repr

/-- `addPolygonRing(ring, isHole, ·)`; `ccw` = `Orientation::isCCW(ring)` of the original ring -/
def addPolygonRing (clip : Option Box) (ix : Nat → Pt → Pt → Pt) (ring : List Pt) (ccw isHole : Bool) : List EdgeIn :=
  if ring.isEmpty then [] else
  if isClippedCompletely clip (envOfPts ring) then [] else
  let pts := match clip with
    | none => dedupAdj ring
    | some c => if Env.covers (some c) (envOfPts ring) then dedupAdj ring else ringClip c ix ring
  if pts.length < 2 then [] else
  [⟨pts, 2, depthDelta ccw isHole, isHole⟩]

/-- `MIN_LIMIT_PTS` -/
def minLimitPts : Nat := 20

/-- `isToBeLimited(line)` -/
def isToBeLimited (clip : Option Box) (line : List Pt) : Bool :=
  match clip with
  | none => false
  | some c => if line.length ≤ minLimitPts then false else !Env.covers (some c) (envOfPts line)

/-- `addLine(line, ·)` with the limiter object in state `s`; returns the edges and the limiter's new state -/
def addLine (clip : Option Box) (s : LState Pt) (line : List Pt) : List EdgeIn × LState Pt :=
  if line.isEmpty then ([], s) else
  if isClippedCompletely clip (envOfPts line) then ([], s) else
  match clip, isToBeLimited clip line with
  | some c, true =>
    let s' := runObj (boxHasPt c) (boxMeetsSeg c) s line
    ((s'.sections.reverse.filter (fun sec => decide (sec.length ≥ 2))).map (fun sec => ⟨sec, 1, 0, false⟩), s')
  | _, _ =>
    let pts := dedupAdj line
    (if pts.length < 2 then [] else [⟨pts, 1, 0, false⟩], s)

/-- the lines of one operand, in order, through ONE limiter -/
def addLines (clip : Option Box) : LState Pt → List (List Pt) → List EdgeIn
  | _, [] => []
  | s, l :: r => let (es, s') := addLine clip s l; es ++ addLines clip s' r

end GeosModel.Overlay.Clip
