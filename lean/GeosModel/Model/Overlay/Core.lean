import GeosModel.Base.IM
import GeosModel.Base.Env
/-!
CORE of C03: faithful models of the small decision functions of OverlayNG.

* `isResultOfOp`     — `OverlayNG::isResultOfOp(int opCode, Location loc0, Location loc1)` (OverlayNG.cpp), including the
                       BOUNDARY → INTERIOR folding done in its first two statements and the `return false` for an
                       unknown op code;
* `resultDimension`  — `OverlayUtil::resultDimension(int opCode, int dim0, int dim1)`;
* `isEmptyResult`    — `OverlayUtil::isEmptyResult` for a floating precision model, as a function of the three facts it
                       reads (`isEmpty(a)`, `isEmpty(b)`, `envA.disjoint(envB)`), with `isEnvDisjoint` inlined;
* `emptyResultType`  — `OverlayUtil::createEmptyResult(dim)`;
* `isResultAreaConsistent` is not modelled (it only decides which rung of the ladder answers).

`boolop` is the *specification*: the Boolean combination of two membership bits.  Core Lean only.
-/
namespace GeosModel.Overlay

/-- op codes of `OverlayNG` (INTERSECTION = 1, UNION = 2, DIFFERENCE = 3, SYMDIFFERENCE = 4) -/
inductive Op where
  | inter | union | diff | symdiff
deriving DecidableEq, Repr, Inhabited

def Op.code : Op → Int
  | .inter => 1 | .union => 2 | .diff => 3 | .symdiff => 4

def Op.ofCode (c : Int) : Option Op :=
  if c == 1 then some .inter else if c == 2 then some .union else if c == 3 then some .diff
  else if c == 4 then some .symdiff else none

/-- the Boolean combination named by an op code (the specification of membership in the result) -/
def boolop : Op → Bool → Bool → Bool
  | .inter, a, b => a && b
  | .union, a, b => a || b
  | .diff, a, b => a && !b
  | .symdiff, a, b => a != b

/-- membership spec used by the check and by the set-algebra theorems -/
def member (op : Op) (a b : Bool) : Bool := boolop op a b

/-- `OverlayNG::isResultOfOp` on a raw op code -/
def isResultOfOpCode (opCode : Int) (loc0 loc1 : Loc3) : Bool :=
  let loc0 := if loc0 == .B then Loc3.I else loc0
  let loc1 := if loc1 == .B then Loc3.I else loc1
  if opCode == 1 then loc0 == .I && loc1 == .I
  else if opCode == 2 then loc0 == .I || loc1 == .I
  else if opCode == 3 then loc0 == .I && loc1 != .I
  else if opCode == 4 then (loc0 == .I && loc1 != .I) || (loc0 != .I && loc1 == .I)
  else false

def isResultOfOp (op : Op) (loc0 loc1 : Loc3) : Bool := isResultOfOpCode op.code loc0 loc1

/-- a location is in the closure of the geometry -/
def inClosure (l : Loc3) : Bool := l != .E

/-- `OverlayUtil::resultDimension` (−1 for an unknown op code cannot occur for an `Op`) -/
def resultDimension (op : Op) (dim0 dim1 : Int) : Int :=
  match op with
  | .inter => min dim0 dim1
  | .union => max dim0 dim1
  | .diff => dim0
  | .symdiff => max dim0 dim1

/-- `OverlayUtil::isEnvDisjoint` with a floating precision model -/
def isEnvDisjoint (emptyA emptyB envDisjoint : Bool) : Bool :=
  if emptyA || emptyB then true else envDisjoint

/-- `OverlayUtil::isEmptyResult` with a floating precision model -/
def isEmptyResult (op : Op) (emptyA emptyB envDisjoint : Bool) : Bool :=
  match op with
  | .inter => isEnvDisjoint emptyA emptyB envDisjoint
  | .diff => emptyA
  | .union => emptyA && emptyB
  | .symdiff => emptyA && emptyB

/-- `Envelope::disjoint` = `!intersects` (null envelopes are disjoint from everything) -/
def envDisjoint (a b : Env) : Bool := !Env.inter a b

/-- GEOS type ids of the empty geometry made by `OverlayUtil::createEmptyResult(dim)`:
0 → Point (0), 1 → LineString (1), 2 → Polygon (3), −1 → GeometryCollection (7); anything else asserts -/
def emptyResultType (dim : Int) : Option Nat :=
  if dim == 0 then some 0 else if dim == 1 then some 1 else if dim == 2 then some 3
  else if dim == -1 then some 7 else none

/-! ### dispatch of `HeuristicOverlay` (src/geom/HeuristicOverlay.cpp)

A geometry is abstracted to the list of `(dimension, isEmpty)` of its atomic elements (Point / LineString / Polygon, in
any nesting of Multi* and GeometryCollection) plus "the top-level object is a GeometryCollection". -/

structure Shape where
  isGC : Bool
  /-- `Geometry::getDimension()`: empty atoms count, a MultiX has the dimension of X even when it has no element,
  an empty GeometryCollection has −1 (`Dimension::False`) -/
  dim : Int
  atoms : List (Int × Bool)
deriving Repr

def Shape.isEmpty (s : Shape) : Bool := s.atoms.all (·.2)

/-- `Geometry::isMixedDimension()`: two atoms (empty or not) of different dimension -/
def Shape.isMixedDimension (s : Shape) : Bool :=
  match s.atoms with
  | [] => false
  | a :: r => r.any (·.1 != a.1)

/-- `isHandledByOverlayNG` -/
def Shape.handledByOverlayNG (s : Shape) : Bool :=
  !(s.isMixedDimension && !s.isEmpty) && !(s.isGC && s.dim == 2)

/-- `StructuredCollection::getDimension()` after `readCollection`: the largest dimension of a NON-empty atom,
`Dimension::DONTCARE` (−3) if there is none -/
def Shape.structuredDim (s : Shape) : Int :=
  (s.atoms.filter (!·.2)).foldl (fun d a => max d a.1) (-3)

/-- the pair of dimensions that reaches `OverlayUtil::resultDimension` -/
def overlayDims (a b : Shape) : Int × Int :=
  if a.handledByOverlayNG && b.handledByOverlayNG then (a.dim, b.dim) else (a.structuredDim, b.structuredDim)

end GeosModel.Overlay
