import GeosModel.Model.WKT.Write
/-
What a WKT write → read round trip is *supposed* to return (ISO tags, i.e. `old3D = false`):
`project cfg f g` — the same type tree, with
  * every coordinate sequence inside one tagged geometry carrying that geometry's output ordinates
    (`capOrds outDim (hasZ, hasM)`: the documented dimension dropping; a sequence that lacked an ordinate
    its parent has comes back with NaN there),
  * ordinates mapped through `f` (identity at token level; `strtod ∘ writeNumber` at text level),
  * the representation changes WKT forces: a LinearRing that is a ring of a CurvePolygon / section of a
    CompoundCurve / member of a MultiCurve is written as a bare coordinate list and comes back as a
    LineString; a CompoundCurve whose sections are all empty comes back with no sections; an empty
    Polygon / CurvePolygon comes back without (empty) holes.
`dimOK cfg g` — the condition under which `WKTReader` accepts the writer's output at all: every tagged
GEOMETRYCOLLECTION whose own tag is not plain XY must have children that all carry the same tag
(otherwise the reader throws "Cannot mix dimensionality in a geometry").
Core Lean only.
-/
namespace GeosModel.WKT
open GeosModel

def projCoord (o : Ords) (f : UInt64 → UInt64) (c : Coord) : Coord :=
  ⟨f c.x, f c.y, if o.z then f c.z else nanBits, if o.m then f c.m else nanBits⟩

def projSeq (o : Ords) (f : UInt64 → UInt64) (s : CSeq) : CSeq := ⟨o.z, o.m, s.pts.map (projCoord o f)⟩

/-- a simple curve written by `appendSimpleCurveText` -/
def projSimple (o : Ords) (f : UInt64 → UInt64) : G → G
  | .circularString s => .circularString (projSeq o f s)
  | .lineString s | .linearRing s => .lineString (projSeq o f s)
  | g => g

def projSimples (o : Ords) (f : UInt64 → UInt64) : List G → List G
  | [] => []
  | g :: gs => projSimple o f g :: projSimples o f gs

def projCompound (o : Ords) (f : UInt64 → UInt64) (secs : List G) : G :=
  if allEmpty secs then .compoundCurve [] else .compoundCurve (projSimples o f secs)

/-- a curve written by `appendCurveText` -/
def projCurve (o : Ords) (f : UInt64 → UInt64) : G → G
  | .compoundCurve secs => projCompound o f secs
  | g => projSimple o f g

def projCurves (o : Ords) (f : UInt64 → UInt64) : List G → List G
  | [] => []
  | g :: gs => projCurve o f g :: projCurves o f gs

def projPolygon (o : Ords) (f : UInt64 → UInt64) (sh : CSeq) (hs : List CSeq) : G :=
  if sh.pts.isEmpty then .polygon ⟨o.z, o.m, []⟩ [] else .polygon (projSeq o f sh) (hs.map (projSeq o f))

def projCurvePolygon (o : Ords) (f : UInt64 → UInt64) (rings : List G) : G :=
  if isEmpty (.curvePolygon rings) then .curvePolygon [] else .curvePolygon (projCurves o f rings)

def projSurface (o : Ords) (f : UInt64 → UInt64) : G → G
  | .polygon sh hs => projPolygon o f sh hs
  | .curvePolygon rings => projCurvePolygon o f rings
  | g => g

def projSurfaces (o : Ords) (f : UInt64 → UInt64) : List G → List G
  | [] => []
  | g :: gs => projSurface o f g :: projSurfaces o f gs

def projPoint (o : Ords) (f : UInt64 → UInt64) : G → G
  | .point s => .point ⟨o.z, o.m, (s.pts.take 1).map (projCoord o f)⟩
  | g => g

def projPoints (o : Ords) (f : UInt64 → UInt64) : List G → List G
  | [] => []
  | g :: gs => projPoint o f g :: projPoints o f gs

mutual
  def project (cfg : Cfg) (f : UInt64 → UInt64) : G → G
    | .point s => .point (projSeq (capOrds cfg.outDim ⟨s.hasZ, s.hasM⟩) f s)
    | .lineString s => .lineString (projSeq (capOrds cfg.outDim ⟨s.hasZ, s.hasM⟩) f s)
    | .linearRing s => .linearRing (projSeq (capOrds cfg.outDim ⟨s.hasZ, s.hasM⟩) f s)
    | .circularString s => .circularString (projSeq (capOrds cfg.outDim ⟨s.hasZ, s.hasM⟩) f s)
    | .polygon sh hs => projPolygon (outOrds cfg (.polygon sh hs)) f sh hs
    | .compoundCurve secs => projCompound (outOrds cfg (.compoundCurve secs)) f secs
    | .curvePolygon rings => projCurvePolygon (outOrds cfg (.curvePolygon rings)) f rings
    | .multiPoint gs => .multiPoint (projPoints (outOrds cfg (.multiPoint gs)) f gs)
    | .multiLineString gs => .multiLineString (projCurves (outOrds cfg (.multiLineString gs)) f gs)
    | .multiCurve gs => .multiCurve (projCurves (outOrds cfg (.multiCurve gs)) f gs)
    | .multiPolygon gs => .multiPolygon (projSurfaces (outOrds cfg (.multiPolygon gs)) f gs)
    | .multiSurface gs => .multiSurface (projSurfaces (outOrds cfg (.multiSurface gs)) f gs)
    | .collection gs => .collection (projectList cfg f gs)
  def projectList (cfg : Cfg) (f : UInt64 → UInt64) : List G → List G
    | [] => []
    | g :: gs => project cfg f g :: projectList cfg f gs
end

def sameOrds (cfg : Cfg) (o : Ords) : List G → Bool
  | [] => true
  | g :: gs => decide (outOrds cfg g = o) && sameOrds cfg o gs

mutual
  /-- the reader accepts the writer's output (ISO tags) -/
  def dimOK (cfg : Cfg) : G → Bool
    | .collection gs =>
      let o := outOrds cfg (.collection gs)
      dimOKs cfg gs && ((!o.z && !o.m) || sameOrds cfg o gs)
    | _ => true
  def dimOKs (cfg : Cfg) : List G → Bool
    | [] => true
    | g :: gs => dimOK cfg g && dimOKs cfg gs
end

end GeosModel.WKT
