import GeosModel.Model.WKT.Read
/-!
# C10 — the vocabulary the regenerated WKT writer / reader decision functions are stated in

`translate/specs/wkt_io.py` regenerates the configuration, ordinate-flag and number-layout decisions of `WKTWriter.cpp`,
`WKTReader.cpp`, `OrdinateSet.h` and `PrecisionModel.cpp` into `Generated/WktIO.lean`.  That code talks about things the
hand-written model (`Write.lean`, `Read.lean`, `Num/Fixed.lean`) has inlined: the `OrdinateSet` value class with its
`changesAllowed` latch (the model's `Flags`), the `Writer` the pieces of text are appended to, the token stream as
`WKTReader` sees it through `getNextWord` / `getNextNumber` / `peekNextToken`, doubles as 64-bit patterns with the IEEE-754
comparisons `writeTrimmedNumber` applies to them.  They are named here so that the bridge theorems (`Props/C10Gen.lean`)
have something to be about.  Core Lean only.
-/
namespace GeosModel.WKT
open GeosModel

/-! ### `io::OrdinateSet` = the reader model's `Flags` (Z, M, changesAllowed) -/

def Flags.hasZ (f : Flags) : Bool := f.z
def Flags.hasM (f : Flags) : Bool := f.m
def Flags.changesAllowed (f : Flags) : Bool := f.ca
/-- `size()`: `2 + hasZ() + hasM()` -/
def Flags.size (f : Flags) : Int := 2 + (if f.z then 1 else 0) + (if f.m then 1 else 0)
/-- `setZ(value)`: a change is only possible while changes are allowed, otherwise `GEOSException` -/
def Flags.setZ (f : Flags) (v : Bool) : Except String Flags :=
  if f.z != v then (if f.ca then .ok { f with z := v } else .error "GEOSException") else .ok f
def Flags.setM (f : Flags) (v : Bool) : Except String Flags :=
  if f.m != v then (if f.ca then .ok { f with m := v } else .error "GEOSException") else .ok f
def Flags.setChangesAllowed (f : Flags) (v : Bool) : Flags := { f with ca := v }
def Flags.createXY : Flags := {}
def Flags.createXYZM : Flags := { z := true, m := true }
/-- `operator!=`: the ordinates differ (the `changesAllowed` latch is not compared) -/
def Flags.ne (a b : Flags) : Bool := !(a.sameDims b)
/-- the member `m_value` (`X | Y | Z? | M?` with X = 1, Y = 2, Z = 4, M = 8) -/
def Flags.value (f : Flags) : Nat := 3 + (if f.z then 4 else 0) + (if f.m then 8 else 0)

def Flags.ords (f : Flags) : Ords := ⟨f.z, f.m⟩

/-- `geom::CoordinateXYZM` over an abstract ordinate type -/
structure XYZM (D : Type) where
  x : D
  y : D
  z : D
  m : D

def XYZM.ofCoord (c : Coord) : XYZM UInt64 := ⟨c.x, c.y, c.z, c.m⟩
def XYZM.toCoord (c : XYZM UInt64) : Coord := ⟨c.x, c.y, c.z, c.m⟩

/-- `util::endsWith(s, suffix)` / `util::endsWith(s, ch)` -/
def endsWithS (s t : String) : Bool := t.toList.isSuffixOf s.toList
def endsWithC (s : String) (c : Char) : Bool := s.toList.getLast? == some c

/-! ### `io::Writer`: the list of strings written so far -/

abbrev Writer := List String
def Writer.write (w : Writer) (s : String) : Writer := w ++ [s]
def Writer.text (w : Writer) : String := String.join w

/-! ### the token stream as `WKTReader` reads it -/

/-- `StringTokenizer::peekNextToken() == TT_NUMBER` -/
def isNumberNext (ts : List Tok) : Bool := isNumNext ts
/-- `WKTReader::getNextNumber` -/
def getNextNumber (ts : List Tok) : Except String (UInt64 × List Tok) :=
  match ts with
  | .num b :: r => .ok (b, r)
  | _ => .error "ParseException"
/-- `WKTReader::getNextWord`: a word (upper-cased by the tokenizer model), or the text of `(` `)` `,`; a number or the
end of the input is a `ParseException` -/
def getNextWord (ts : List Tok) : Except String (String × List Tok) :=
  match ts with
  | .word s :: r => .ok (s, r)
  | .lp :: r => .ok ("(", r)
  | .rp :: r => .ok (")", r)
  | .comma :: r => .ok (",", r)
  | _ => .error "ParseException"

/-- the model's errors as the exception class names the regenerated code throws -/
def Err.name : Err → String
  | .parse => "ParseException"
  | .illegal => "IllegalArgumentException"
  | .fuel => "fuel"

def liftP {α : Type} : P α → Except String α
  | .ok a => .ok a
  | .error e => .error e.name

/-- `r = .ok f`, decidably -/
def okIs (r : Except String Flags) (f : Flags) : Bool :=
  match r with
  | .ok g => g == f
  | .error _ => false

/-- the tag spellings: type keyword + nothing / Z / M / ZM, with the flags `matchType` gives them -/
def tagSuffixes : List (String × Flags) :=
  [("", {}), ("Z", { z := true, ca := false }), ("M", { m := true, ca := false }), ("ZM", { z := true, m := true, ca := false })]

/-! ### `WKTWriter` configuration -/

/-- `setRoundingPrecision(p0)`: values below −1 are −1 -/
def clampPrecision (p : Int) : Int := if p < -1 then -1 else p

/-- `setOutputDimension(dims)` -/
def checkOutputDimension (d : Nat) : Except String Nat :=
  if d < 2 ∨ d > 4 then .error "IllegalArgumentException" else .ok d

/-- the text the model's `render` lays out for the tag tokens `ordText` (every tag word is followed by a blank) -/
def ordTextStr (cfg : Cfg) (o : Ords) : String :=
  String.join ((ordText cfg o).map fun t => String.ofList (tokStr cfg t ++ [' ']))

/-- `getMaximumSignificantDigits()` of a FIXED precision model, `l = log(scale) / log(10)`, `zero = 0.0`:
`static_cast<int>(l > 0 ? ceil(l) : floor(l))`, over whatever the doubles are -/
def fixedDigits {D : Type} (dlt : D → D → Bool) (dtoInt : D → Int) (ceil floor : D → D) (zero l : D) : Int :=
  dtoInt (if dlt zero l then ceil l else floor l)

/-- `PrecisionModel::Type` -/
inductive PMType where
  | fixed | floating | floatingSingle
deriving DecidableEq, Repr, Inhabited

end GeosModel.WKT

namespace GeosModel.Num

/-! ### doubles as 64-bit patterns: the operations `WKTWriter::writeTrimmedNumber` applies -/

def isNaNB (b : Nat) : Bool := decide (absBits b > INF)
/-- IEEE-754 `<` on bit patterns: false when either side is NaN; −0 = +0 -/
def ltB (a b : Nat) : Bool :=
  if isNaNB a || isNaNB b then false
  else match signOf a, signOf b with
    | false, false => decide (absBits a < absBits b)
    | true, true => decide (absBits b < absBits a)
    | true, false => !(absBits a == 0 && absBits b == 0)
    | false, true => false
/-- IEEE-754 `==` -/
def eqB (a b : Nat) : Bool :=
  if isNaNB a || isNaNB b then false else (a == b || (absBits a == 0 && absBits b == 0))
/-- IEEE-754 `<=` -/
def leB (a b : Nat) : Bool := ltB a b || eqB a b
/-- `std::fabs` -/
def fabsB (b : Nat) : Nat := absBits b
/-- `std::isfinite` -/
def isFiniteB (b : Nat) : Bool := decide (absBits b < INF)
/-- a decimal literal `m × 10^e` (m ≥ 0) as the compiler converts it: correctly rounded -/
def litB (m e : Int) : Nat := roundNE (.dec false m.toNat e)

end GeosModel.Num
