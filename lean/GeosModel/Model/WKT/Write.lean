import GeosModel.Base.GTree
import GeosModel.Model.Num.Fixed
/-
Model of `geos::io::WKTWriter` (src/io/WKTWriter.cpp) on `GeosModel.G`: tags, Z/M/ZM (or the old-3D
convention), EMPTY at every level, nesting, output-dimension dropping, all 13 geometry classes.
The writer produces a list of tokens; `render` lays the tokens out with exactly the blanks GEOS writes
(non-formatted mode, i.e. `WKTWriter::write`).  `removeEmptyDimensions` is at its default (false).
Core Lean only.
-/
namespace GeosModel.WKT
open GeosModel

/-- writer configuration (`setTrim`, `setRoundingPrecision`, `setOutputDimension`, `setOld3D`) -/
structure Cfg where
  trim : Bool := true
  precision : Int := -1     -- as passed to setRoundingPrecision (values < -1 are clamped to -1 by the setter)
  outDim : Nat := 4         -- 2, 3 or 4
  old3D : Bool := false
  /-- `getMaximumSignificantDigits()` of the written geometry's precision model (16 for the default floating model;
  `ceil(log10 scale)` resp. `floor` for a fixed one — may be negative); only read when `precision = -1` -/
  pmDigits : Int := 16
deriving Repr, DecidableEq

inductive Tok where
  | word (s : String)
  | lp
  | rp
  | comma
  | num (bits : UInt64)
deriving Repr, DecidableEq, Inhabited

/-- `OrdinateSet` restricted to what matters: Z and M -/
structure Ords where
  z : Bool
  m : Bool
deriving Repr, DecidableEq, Inhabited

mutual
  /-- `Geometry::hasZ()` -/
  def hasZ : G → Bool
    | .point s | .lineString s | .linearRing s | .circularString s => s.hasZ
    | .polygon sh hs => sh.hasZ || hs.any (·.hasZ)
    | .compoundCurve gs | .curvePolygon gs | .multiPoint gs | .multiLineString gs | .multiPolygon gs
    | .multiCurve gs | .multiSurface gs | .collection gs => hasZs gs
  def hasZs : List G → Bool
    | [] => false
    | g :: gs => hasZ g || hasZs gs
end

mutual
  /-- `Geometry::hasM()` -/
  def hasM : G → Bool
    | .point s | .lineString s | .linearRing s | .circularString s => s.hasM
    | .polygon sh hs => sh.hasM || hs.any (·.hasM)
    | .compoundCurve gs | .curvePolygon gs | .multiPoint gs | .multiLineString gs | .multiPolygon gs
    | .multiCurve gs | .multiSurface gs | .collection gs => hasMs gs
  def hasMs : List G → Bool
    | [] => false
    | g :: gs => hasM g || hasMs gs
end

mutual
  /-- `Geometry::isEmpty()` -/
  def isEmpty : G → Bool
    | .point s | .lineString s | .linearRing s | .circularString s => s.pts.isEmpty
    | .polygon sh _ => sh.pts.isEmpty
    | .curvePolygon [] => true
    | .curvePolygon (sh :: _) => isEmpty sh
    | .compoundCurve gs | .multiPoint gs | .multiLineString gs | .multiPolygon gs
    | .multiCurve gs | .multiSurface gs | .collection gs => allEmpty gs
  def allEmpty : List G → Bool
    | [] => true
    | g :: gs => isEmpty g && allEmpty gs
end

/-- the `while (outputOrdinates.size() > defaultOutputDimension)` loop of `appendGeometryTaggedText` -/
def capOrds (outDim : Nat) (o : Ords) : Ords :=
  let o1 := if 2 + o.z.toNat + o.m.toNat > outDim then (if o.z && o.m then { o with m := false } else ⟨false, false⟩) else o
  if 2 + o1.z.toNat + o1.m.toNat > outDim then (if o1.z && o1.m then { o1 with m := false } else ⟨false, false⟩) else o1

def outOrds (cfg : Cfg) (g : G) : Ords := capOrds cfg.outDim ⟨hasZ g, hasM g⟩

/-- `appendOrdinateText` -/
def ordText (cfg : Cfg) (o : Ords) : List Tok :=
  if cfg.old3D then (if !o.z && o.m then [.word "M"] else [])
  else match o.z, o.m with
    | true, true => [.word "ZM"]
    | true, false => [.word "Z"]
    | false, true => [.word "M"]
    | false, false => []

/-- `appendCoordinate`: the sequence hands out NaN for ordinates it does not have (`CSeq.canon`) -/
def coordToks (o : Ords) (c : Coord) : List Tok :=
  [.num c.x, .num c.y] ++ (if o.z then [.num c.z] else []) ++ (if o.m then [.num c.m] else [])

def coordsToks (o : Ords) : List Coord → List Tok
  | [] => []
  | [c] => coordToks o c
  | c :: cs => coordToks o c ++ .comma :: coordsToks o cs

/-- `appendSequenceText` -/
def seqText (o : Ords) (s : CSeq) : List Tok :=
  if s.pts.isEmpty then [.word "EMPTY"] else .lp :: coordsToks o s.pts ++ [.rp]

/-- comma-separated list in parentheses -/
def commaSep : List (List Tok) → List Tok
  | [] => []
  | [x] => x
  | x :: xs => x ++ .comma :: commaSep xs

/-- `appendSimpleCurveText` for one section of a compound curve / one bare curve:
CIRCULARSTRING is tagged, a line string or linear ring is a bare sequence -/
def simpleCurveText (cfg : Cfg) (o : Ords) : G → List Tok
  | .circularString s => .word "CIRCULARSTRING" :: ordText cfg o ++ seqText o s
  | .lineString s | .linearRing s => seqText o s
  | _ => [.word "?"]      -- not a simple curve: cannot be constructed

def sectionsText (cfg : Cfg) (o : Ords) : List G → List (List Tok)
  | [] => []
  | g :: gs => simpleCurveText cfg o g :: sectionsText cfg o gs

/-- `appendCompoundCurveTaggedText` -/
def compoundText (cfg : Cfg) (o : Ords) (secs : List G) : List Tok :=
  .word "COMPOUNDCURVE" :: ordText cfg o ++
    (if allEmpty secs then [.word "EMPTY"] else .lp :: commaSep (sectionsText cfg o secs) ++ [.rp])

/-- `appendCurveText` -/
def curveText (cfg : Cfg) (o : Ords) : G → List Tok
  | .compoundCurve secs => compoundText cfg o secs
  | g => simpleCurveText cfg o g

def curvesText (cfg : Cfg) (o : Ords) : List G → List (List Tok)
  | [] => []
  | g :: gs => curveText cfg o g :: curvesText cfg o gs

/-- `appendSurfaceText` of a Polygon -/
def polygonText (o : Ords) (sh : CSeq) (hs : List CSeq) : List Tok :=
  if sh.pts.isEmpty then [.word "EMPTY"]
  else .lp :: commaSep ((sh :: hs).map (seqText o)) ++ [.rp]

/-- `appendSurfaceText` of a CurvePolygon -/
def curvePolygonText (cfg : Cfg) (o : Ords) (rings : List G) : List Tok :=
  if isEmpty (.curvePolygon rings) then [.word "EMPTY"]
  else .lp :: commaSep (curvesText cfg o rings) ++ [.rp]

/-- element of `appendMultiSurfaceText` -/
def surfaceElemText (cfg : Cfg) (o : Ords) : G → List Tok
  | .polygon sh hs => polygonText o sh hs
  | .curvePolygon rings => .word "CURVEPOLYGON" :: ordText cfg o ++ curvePolygonText cfg o rings
  | _ => [.word "?"]

def surfacesText (cfg : Cfg) (o : Ords) : List G → List (List Tok)
  | [] => []
  | g :: gs => surfaceElemText cfg o g :: surfacesText cfg o gs

/-- element of `appendMultiPointText` -/
def pointElemText (o : Ords) : G → List Tok
  | .point s => match s.pts with
    | [] => [.word "EMPTY"]
    | c :: _ => .lp :: coordToks o c ++ [.rp]
  | _ => [.word "?"]

def pointsText (o : Ords) : List G → List (List Tok)
  | [] => []
  | g :: gs => pointElemText o g :: pointsText o gs

def listText (elems : List (List Tok)) : List Tok :=
  if elems.isEmpty then [.word "EMPTY"] else .lp :: commaSep elems ++ [.rp]

mutual
  /-- `appendGeometryTaggedText` -/
  def tagged (cfg : Cfg) : G → List Tok
    | .point s =>
      let o := capOrds cfg.outDim ⟨s.hasZ, s.hasM⟩
      .word "POINT" :: ordText cfg o ++ seqText o s
    | .lineString s =>
      let o := capOrds cfg.outDim ⟨s.hasZ, s.hasM⟩
      .word "LINESTRING" :: ordText cfg o ++ seqText o s
    | .linearRing s =>
      let o := capOrds cfg.outDim ⟨s.hasZ, s.hasM⟩
      .word "LINEARRING" :: ordText cfg o ++ seqText o s
    | .circularString s =>
      let o := capOrds cfg.outDim ⟨s.hasZ, s.hasM⟩
      .word "CIRCULARSTRING" :: ordText cfg o ++ seqText o s
    | .polygon sh hs =>
      let o := outOrds cfg (.polygon sh hs)
      .word "POLYGON" :: ordText cfg o ++ polygonText o sh hs
    | .compoundCurve secs => compoundText cfg (outOrds cfg (.compoundCurve secs)) secs
    | .curvePolygon rings =>
      let o := outOrds cfg (.curvePolygon rings)
      .word "CURVEPOLYGON" :: ordText cfg o ++ curvePolygonText cfg o rings
    | .multiPoint gs =>
      let o := outOrds cfg (.multiPoint gs)
      .word "MULTIPOINT" :: ordText cfg o ++ listText (pointsText o gs)
    | .multiLineString gs =>
      let o := outOrds cfg (.multiLineString gs)
      .word "MULTILINESTRING" :: ordText cfg o ++ listText (curvesText cfg o gs)
    | .multiCurve gs =>
      let o := outOrds cfg (.multiCurve gs)
      .word "MULTICURVE" :: ordText cfg o ++ listText (curvesText cfg o gs)
    | .multiPolygon gs =>
      let o := outOrds cfg (.multiPolygon gs)
      .word "MULTIPOLYGON" :: ordText cfg o ++ listText (surfacesText cfg o gs)
    | .multiSurface gs =>
      let o := outOrds cfg (.multiSurface gs)
      .word "MULTISURFACE" :: ordText cfg o ++ listText (surfacesText cfg o gs)
    | .collection gs =>
      let o := outOrds cfg (.collection gs)
      .word "GEOMETRYCOLLECTION" :: ordText cfg o ++ listText (taggedList cfg gs)
  def taggedList (cfg : Cfg) : List G → List (List Tok)
    | [] => []
    | g :: gs => tagged cfg g :: taggedList cfg gs
end

/-- tokens of `WKTWriter::write(g)` -/
def writeToks (cfg : Cfg) (g : G) : List Tok := tagged cfg g

/-! ### layout -/

/-- `decimalPlaces` as used by `writeNumber(d)`: `roundingPrecision == -1` → the precision model's
`getMaximumSignificantDigits()` (16 for the default floating model), and negative → 0 -/
def decimalPlaces (cfg : Cfg) : Nat := if cfg.precision = -1 then cfg.pmDigits.toNat else cfg.precision.toNat

def tokStr (cfg : Cfg) : Tok → List Char
  | .word s => s.toList
  | .lp => ['(']
  | .rp => [')']
  | .comma => [',']
  | .num b => Num.writeNumber b.toNat cfg.trim (decimalPlaces cfg)

/-- a blank follows every keyword except EMPTY, every comma, and separates two numbers -/
def spaceAfter : Tok → Tok → Bool
  | .word s, _ => s ≠ "EMPTY"
  | .comma, _ => true
  | .num _, .num _ => true
  | _, _ => false

def render (cfg : Cfg) : List Tok → List Char
  | [] => []
  | [t] => tokStr cfg t
  | a :: b :: r => tokStr cfg a ++ (if spaceAfter a b then [' '] else []) ++ render cfg (b :: r)

def write (cfg : Cfg) (g : G) : String := String.ofList (render cfg (writeToks cfg g))

end GeosModel.WKT
