import GeosModel.Base.GTree
import GeosModel.Base.F64
/-!
# C10 — the documented dimension dropping of the C++ WKT writer

`io::WKTWriter::setRemoveEmptyDimensions(true)` (WKTWriter.h: "remove … dimensions that have no non-NaN values"), with output
dimension 4: `WKTWriter::appendGeometryTaggedText` asks `CheckOrdinatesFilter` which of Z / M carries a non-NaN value in SOME
coordinate of the geometry and writes exactly those; an EMPTY geometry keeps its declared dimensions.  Tied to the real writer by
the stream `wkt-red` (harness/c10.cpp ↔ Driver/C10.lean).  Core Lean only.
-/
namespace GeosModel.WKT.Dims
open GeosModel

/-- every coordinate sequence of a tree -/
def seqsOf : G → List CSeq
  | .point s | .lineString s | .linearRing s | .circularString s => [s]
  | .polygon sh hs => sh :: hs
  | .compoundCurve gs | .curvePolygon gs | .multiPoint gs | .multiLineString gs | .multiPolygon gs
  | .multiCurve gs | .multiSurface gs | .collection gs => seqsOfL gs
where
  seqsOfL : List G → List CSeq
    | [] => []
    | g :: gs => seqsOf g ++ seqsOfL gs

def seqHasRealZ (s : CSeq) : Bool := s.hasZ && s.pts.any fun c => !F64.isNaN c.z
def seqHasRealM (s : CSeq) : Bool := s.hasM && s.pts.any fun c => !F64.isNaN c.m

/-- the geometry has no coordinate at all -/
def isEmpty (g : G) : Bool := (seqsOf g).all fun s => s.pts.isEmpty

/-- the Z flag of the written text -/
def writesZ (g : G) : Bool := if isEmpty g then (seqsOf g).any (·.hasZ) else (seqsOf g).any seqHasRealZ
/-- the M flag of the written text -/
def writesM (g : G) : Bool := if isEmpty g then (seqsOf g).any (·.hasM) else (seqsOf g).any seqHasRealM

end GeosModel.WKT.Dims
