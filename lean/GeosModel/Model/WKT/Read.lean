import GeosModel.Model.WKT.Write
import GeosModel.Model.Num.Parse
/-
Model of `geos::io::StringTokenizer` + `geos::io::WKTReader` (src/io/StringTokenizer.cpp, src/io/WKTReader.cpp):
tokenizer (numbers are whatever `strtod` consumes completely) and the recursive-descent reader with its
`OrdinateSet` bookkeeping (declared Z/M/ZM, undeclared Z/M detected on the first coordinate, "Cannot mix
dimensionality"), typed EMPTY elements, both MULTIPOINT syntaxes, and the constructor checks of the
geometry factory that can reject what was parsed.  Recursion is on a fuel argument (structural).
Precision model = floating (makePrecise is the identity); `fixStructure` = false (default).
Core Lean only.
-/
namespace GeosModel.WKT
open GeosModel

inductive Err where
  | parse      -- ParseException
  | illegal    -- IllegalArgumentException from a geometry constructor
  | fuel       -- model ran out of fuel (never with the fuel `readToks` supplies, 3·tokens + 4)
deriving Repr, DecidableEq, Inhabited

/-! ### tokenizer -/

def isDelim (c : Char) : Bool := c = '\n' ∨ c = '\r' ∨ c = '\t' ∨ c = '(' ∨ c = ')' ∨ c = ' ' ∨ c = ','
def isBlank (c : Char) : Bool := c = '\n' ∨ c = '\r' ∨ c = '\t' ∨ c = ' '

/-- the chunk up to the next delimiter -/
def spanChunk : List Char → List Char × List Char
  | [] => ([], [])
  | c :: cs => if isDelim c then ([], c :: cs) else let r := spanChunk cs; (c :: r.1, r.2)

def upper (c : Char) : Char := if 'a' ≤ c ∧ c ≤ 'z' then Char.ofNat (c.toNat - 32) else c

/-- a chunk is a number when `strtod` consumes all of it; otherwise a word (upper-cased as `getNextWord` does) -/
def chunkTok (w : List Char) : Tok :=
  match Num.strtod w with
  | some b => .num (UInt64.ofNat b)
  | none => .word (String.ofList (w.map upper))

def tokenizeF : Nat → List Char → List Tok
  | 0, _ => []
  | _, [] => []
  | f + 1, c :: cs =>
    if c = '(' then .lp :: tokenizeF f cs
    else if c = ')' then .rp :: tokenizeF f cs
    else if c = ',' then .comma :: tokenizeF f cs
    else if isBlank c then tokenizeF f cs
    else
      let r := spanChunk (c :: cs)
      chunkTok r.1 :: tokenizeF f r.2

def tokenize (s : List Char) : List Tok := tokenizeF (s.length + 1) s

/-! ### reader -/

/-- `OrdinateSet` with its `changesAllowed` flag -/
structure Flags where
  z : Bool := false
  m : Bool := false
  ca : Bool := true
deriving Repr, DecidableEq, Inhabited

def Flags.sameDims (a b : Flags) : Bool := a.z == b.z && a.m == b.m

abbrev P := Except Err

def isNumNext : List Tok → Bool
  | .num _ :: _ => true
  | _ => false

def getNum : List Tok → P (UInt64 × List Tok)
  | .num b :: r => .ok (b, r)
  | _ => .error .parse

/-- `getPreciseCoordinate` -/
def getCoord (fl : Flags) (ts : List Tok) : P ((Coord × Flags) × List Tok) := do
  let (x, ts) ← getNum ts
  let (y, ts) ← getNum ts
  let fl := if fl.ca && isNumNext ts then { fl with z := true } else fl
  let (z, ts) ← if fl.z then getNum ts else pure (nanBits, ts)
  let fl := if fl.ca && fl.z && isNumNext ts then { fl with m := true } else fl
  let (m, ts) ← if fl.m then getNum ts else pure (nanBits, ts)
  pure ((⟨x, y, z, m⟩, { fl with ca := false }), ts)

/-- `getNextEmptyOrOpener`: returns `true` for EMPTY, `false` for `(` -/
def emptyOrOpener (fl : Flags) (ts : List Tok) : P ((Bool × Flags) × List Tok) :=
  let fin (fl : Flags) (modified : Bool) (ts : List Tok) : P ((Bool × Flags) × List Tok) :=
    let fl := if modified then { fl with ca := false } else fl
    match ts with
    | .word "EMPTY" :: r => .ok ((true, fl), r)
    | .lp :: r => .ok ((false, fl), r)
    | _ => .error .parse
  match ts with
  | .word "ZM" :: r => if !fl.ca then .error .parse else fin { fl with z := true, m := true } true r
  | .word "Z" :: r =>
    if !fl.ca then .error .parse else
    match r with
    | .word "M" :: _ => .error .parse          -- 'M' after 'Z': flagsModified is already set
    | _ => fin { fl with z := true } true r
  | .word "M" :: r => if !fl.ca then .error .parse else fin { fl with m := true } true r
  | _ => fin fl false ts

/-- `getNextCloserOrComma`: `true` for `,` -/
def closerOrComma : List Tok → P (Bool × List Tok)
  | .comma :: r => .ok (true, r)
  | .rp :: r => .ok (false, r)
  | _ => .error .parse

/-- the `while (nextToken == ",")` loop of `getCoordinates` -/
def moreCoords : Nat → Flags → List Tok → P ((List Coord) × List Tok)
  | 0, _, _ => .error .fuel
  | f + 1, fl, ts => do
    let (more, ts) ← closerOrComma ts
    if more then
      let ((c, fl), ts) ← getCoord fl ts
      let (cs, ts) ← moreCoords f fl ts
      pure (c :: cs, ts)
    else pure ([], ts)

/-- `getCoordinates` -/
def getCoordinates (fuel : Nat) (fl : Flags) (ts : List Tok) : P ((CSeq × Flags) × List Tok) := do
  let ((emp, fl), ts) ← emptyOrOpener fl ts
  if emp then pure ((⟨fl.z, fl.m, []⟩, fl), ts)
  else
    let ((c, fl), ts) ← getCoord fl ts
    let (cs, ts) ← moreCoords fuel fl ts
    pure ((⟨fl.z, fl.m, c :: cs⟩, fl), ts)

/-! constructor checks (`validateConstruction`) -/

/-- `==` on doubles -/
def f64eq (a b : UInt64) : Bool :=
  let an := a &&& 0x7fffffffffffffff
  let bn := b &&& 0x7fffffffffffffff
  if an > 0x7ff0000000000000 || bn > 0x7ff0000000000000 then false
  else a == b || (an == 0 && bn == 0)

def eq2D (a b : Coord) : Bool := f64eq a.x b.x && f64eq a.y b.y

def closedSeq (s : CSeq) : Bool :=
  match s.pts.head?, s.pts.getLast? with
  | some a, some b => eq2D a b
  | _, _ => false

def mkPoint (s : CSeq) : Except Err G := if s.pts.length ≤ 1 then .ok (.point s) else .error .illegal
def mkLine (s : CSeq) : Except Err G := if s.pts.length = 1 then .error .illegal else .ok (.lineString s)
def mkCirc (s : CSeq) : Except Err G := if s.pts.length = 2 then .error .illegal else .ok (.circularString s)
def ringOK (s : CSeq) : Bool := s.pts.isEmpty || (closedSeq s && s.pts.length ≥ 3)
def mkRing (s : CSeq) : Except Err G := if ringOK s then .ok (.linearRing s) else .error .illegal

def seqOf : G → Option CSeq
  | .lineString s | .linearRing s | .circularString s => some s
  | _ => none

/-- `CompoundCurve::validateConstruction`: consecutive sections share their end point (2D).  An empty
section next to another section makes the C++ dereference an empty vector (finding F1 of C11); the model
answers `illegal` there. -/
def contiguous : List G → Bool
  | a :: b :: r =>
    (match seqOf a, seqOf b with
     | some sa, some sb =>
       (match sa.pts.getLast?, sb.pts.head? with
        | some e, some s => eq2D e s
        | _, _ => false)
     | _, _ => false) && contiguous (b :: r)
  | _ => true

def isSimpleCurve : G → Bool
  | .lineString _ | .linearRing _ | .circularString _ => true
  | _ => false
def isCurve : G → Bool
  | .compoundCurve _ => true
  | g => isSimpleCurve g
def isSurface : G → Bool
  | .polygon _ _ | .curvePolygon _ => true
  | _ => false

/-- type keywords; `isTypeName` also accepts the keyword with a glued Z / M / ZM, and
`readOrdinateFlags` turns that suffix into declared flags -/
def typeNames : List String :=
  ["POINT", "LINESTRING", "LINEARRING", "CIRCULARSTRING", "COMPOUNDCURVE", "POLYGON", "CURVEPOLYGON",
   "MULTIPOINT", "MULTILINESTRING", "MULTICURVE", "MULTIPOLYGON", "MULTISURFACE", "GEOMETRYCOLLECTION"]

def matchType (w : String) : Option (String × Flags) :=
  typeNames.findSome? fun n =>
    if w = n then some (n, {})
    else if w = n ++ "ZM" then some (n, { z := true, m := true, ca := false })
    else if w = n ++ "Z" then some (n, { z := true, ca := false })
    else if w = n ++ "M" then some (n, { m := true, ca := false })
    else none

def isNaNBits (b : UInt64) : Bool := (b &&& 0x7fffffffffffffff) > 0x7ff0000000000000

/-- a point of the old syntax `MULTIPOINT (x y [z [m]], …)` -/
def oldSyntaxPoint (z m : Bool) (c : Coord) : G :=
  let pz := z && !isNaNBits c.z
  let pm := m && !isNaNBits c.m
  .point ⟨pz, pm, [⟨c.x, c.y, if pz then c.z else nanBits, if pm then c.m else nanBits⟩]⟩

inductive EmptyKind where | none | line | polygon
deriving DecidableEq

mutual
  /-- `readGeometryTaggedText(tokenizer, ordinateFlags, emptyType)`; the caller's flags are not changed -/
  def readTagged : Nat → Flags → EmptyKind → List Tok → P (G × List Tok)
    | 0, _, _, _ => .error .fuel
    | f + 1, orig, ek, ts =>
      match ts with
      | .word w :: ts =>
        if w = "EMPTY" then
          match ek with
          | .line => .ok (.lineString ⟨orig.z, orig.m, []⟩, ts)
          | .polygon => .ok (.polygon ⟨orig.z, orig.m, []⟩ [], ts)
          | .none => .error .parse
        else
          match matchType w with
          | none => .error .parse
          | some (n, nf) => do
            let ((g, nf), ts) ← readBody f n nf ts
            if !orig.ca && !(nf.sameDims orig) then .error .parse else pure (g, ts)
      | _ => .error .parse

  /-- dispatch on the type keyword; returns the geometry and the flags as left by the specific reader -/
  def readBody : Nat → String → Flags → List Tok → P ((G × Flags) × List Tok)
    | 0, _, _, _ => .error .fuel
    | f + 1, n, fl, ts =>
      if n = "POINT" then do
        let ((s, fl), ts) ← getCoordinates f fl ts
        let g ← mkPoint s
        pure ((g, fl), ts)
      else if n = "LINESTRING" then do
        let ((s, fl), ts) ← getCoordinates f fl ts
        let g ← mkLine s
        pure ((g, fl), ts)
      else if n = "LINEARRING" then do
        let ((s, fl), ts) ← getCoordinates f fl ts
        let g ← mkRing s
        pure ((g, fl), ts)
      else if n = "CIRCULARSTRING" then do
        let ((s, fl), ts) ← getCoordinates f fl ts
        let g ← mkCirc s
        pure ((g, fl), ts)
      else if n = "COMPOUNDCURVE" then readCompound f fl ts
      else if n = "POLYGON" then readPolygon f fl ts
      else if n = "CURVEPOLYGON" then readCurvePolygon f fl ts
      else if n = "MULTIPOINT" then readMultiPoint f fl ts
      else if n = "MULTILINESTRING" then do
        let ((emp, fl), ts) ← emptyOrOpener fl ts
        if emp then pure ((.multiLineString [], fl), ts)
        else
          let ((gs, fl), ts) ← readLines f fl ts
          pure ((.multiLineString gs, fl), ts)
      else if n = "MULTICURVE" then do
        let ((emp, fl), ts) ← emptyOrOpener fl ts
        if emp then pure ((.multiCurve [], fl), ts)
        else
          let ((gs, fl), ts) ← readCurves f fl ts
          pure ((.multiCurve gs, fl), ts)
      else if n = "MULTIPOLYGON" then do
        let ((emp, fl), ts) ← emptyOrOpener fl ts
        if emp then pure ((.multiPolygon [], fl), ts)
        else
          let ((gs, fl), ts) ← readPolygons f fl ts
          pure ((.multiPolygon gs, fl), ts)
      else if n = "MULTISURFACE" then do
        let ((emp, fl), ts) ← emptyOrOpener fl ts
        if emp then pure ((.multiSurface [], fl), ts)
        else
          let ((gs, fl), ts) ← readSurfaces f fl ts
          pure ((.multiSurface gs, fl), ts)
      else if n = "GEOMETRYCOLLECTION" then do
        let ((emp, fl), ts) ← emptyOrOpener fl ts
        if emp then pure ((.collection [], fl), ts)
        else
          let (gs, ts) ← readGeoms f fl ts
          pure ((.collection gs, fl), ts)
      else .error .parse

  /-- `readCurveText`: a bare `( … )` is a LINESTRING read with the *caller's* flags, otherwise a tagged curve
  (or a bare EMPTY = empty LINESTRING) -/
  def readCurve : Nat → Flags → List Tok → P ((G × Flags) × List Tok)
    | 0, _, _ => .error .fuel
    | f + 1, fl, ts =>
      match ts with
      | .lp :: _ => do
        let ((s, fl), ts) ← getCoordinates f fl ts
        let g ← mkLine s
        pure ((g, fl), ts)
      | _ => do
        let (g, ts) ← readTagged f fl .line ts
        if isCurve g then pure ((g, fl), ts) else .error .parse

  /-- `do { readCurveText } while (",")` -/
  def readCurves : Nat → Flags → List Tok → P ((List G × Flags) × List Tok)
    | 0, _, _ => .error .fuel
    | f + 1, fl, ts => do
      let ((g, fl), ts) ← readCurve f fl ts
      let (more, ts) ← closerOrComma ts
      if more then
        let ((gs, fl), ts) ← readCurves f fl ts
        pure ((g :: gs, fl), ts)
      else pure (([g], fl), ts)

  /-- `readCompoundCurveText` -/
  def readCompound : Nat → Flags → List Tok → P ((G × Flags) × List Tok)
    | 0, _, _ => .error .fuel
    | f + 1, fl, ts => do
      let ((emp, fl), ts) ← emptyOrOpener fl ts
      if emp then pure ((.compoundCurve [], fl), ts)
      else
        let ((gs, fl), ts) ← readCurves f fl ts
        if !gs.all isSimpleCurve then .error .parse
        else if !contiguous gs then .error .illegal
        else pure ((.compoundCurve gs, fl), ts)

  /-- rings of a polygon: `readLinearRingText` separated by commas -/
  def readRings : Nat → Flags → List Tok → P ((List CSeq × Flags) × List Tok)
    | 0, _, _ => .error .fuel
    | f + 1, fl, ts => do
      let ((s, fl), ts) ← getCoordinates f fl ts
      if !ringOK s then .error .illegal else
      let (more, ts) ← closerOrComma ts
      if more then
        let ((ss, fl), ts) ← readRings f fl ts
        pure ((s :: ss, fl), ts)
      else pure (([s], fl), ts)

  /-- `readPolygonText` -/
  def readPolygon : Nat → Flags → List Tok → P ((G × Flags) × List Tok)
    | 0, _, _ => .error .fuel
    | f + 1, fl, ts => do
      let ((emp, fl), ts) ← emptyOrOpener fl ts
      if emp then pure ((.polygon ⟨fl.z, fl.m, []⟩ [], fl), ts)
      else
        let ((ss, fl), ts) ← readRings f fl ts
        match ss with
        | [] => .error .parse
        | sh :: hs =>
          if sh.pts.isEmpty && hs.any (fun h => !h.pts.isEmpty) then .error .illegal
          else pure ((.polygon sh hs, fl), ts)

  /-- `readCurvePolygonText` (an empty shell gives the empty curve polygon, `curvePolygon []`) -/
  def readCurvePolygon : Nat → Flags → List Tok → P ((G × Flags) × List Tok)
    | 0, _, _ => .error .fuel
    | f + 1, fl, ts => do
      let ((emp, fl), ts) ← emptyOrOpener fl ts
      if emp then pure ((.curvePolygon [], fl), ts)
      else
        let ((gs, fl), ts) ← readCurves f fl ts
        match gs with
        | [] => .error .parse
        | sh :: hs =>
          if isEmpty sh then
            (if hs.any (fun h => !isEmpty h) then .error .illegal else pure ((.curvePolygon [], fl), ts))
          else pure ((.curvePolygon (sh :: hs), fl), ts)

  /-- points of `MULTIPOINT ((..), EMPTY, ..)` -/
  def readPoints : Nat → Flags → List Tok → P ((List G × Flags) × List Tok)
    | 0, _, _ => .error .fuel
    | f + 1, fl, ts => do
      let ((s, fl), ts) ← getCoordinates f fl ts
      let g ← mkPoint s
      let (more, ts) ← closerOrComma ts
      if more then
        let ((gs, fl), ts) ← readPoints f fl ts
        pure ((g :: gs, fl), ts)
      else pure (([g], fl), ts)

  /-- `readMultiPointText`, both syntaxes -/
  def readMultiPoint : Nat → Flags → List Tok → P ((G × Flags) × List Tok)
    | 0, _, _ => .error .fuel
    | f + 1, fl, ts => do
      let ((emp, fl), ts) ← emptyOrOpener fl ts
      if emp then pure ((.multiPoint [], fl), ts)
      else
        match ts with
        | .num _ :: _ => do
          -- MULTIPOINT (0 0, 1 1): the sequence is allocated with the flags known *before* the first
          -- coordinate (an undeclared M is lost), and `createMultiPoint(seq)` makes one point per coordinate
          -- whose Z/M flags depend on the values being NaN
          let fl0 := fl
          let ((c, fl), ts) ← getCoord fl ts
          let (cs, ts) ← moreCoords f fl ts
          pure ((.multiPoint ((c :: cs).map (oldSyntaxPoint fl.z fl0.m)), fl), ts)
        | .lp :: _ | .word _ :: _ => do
          let ((gs, fl), ts) ← readPoints f fl ts
          pure ((.multiPoint gs, fl), ts)
        | _ => .error .parse

  def readLines : Nat → Flags → List Tok → P ((List G × Flags) × List Tok)
    | 0, _, _ => .error .fuel
    | f + 1, fl, ts => do
      let ((s, fl), ts) ← getCoordinates f fl ts
      let g ← mkLine s
      let (more, ts) ← closerOrComma ts
      if more then
        let ((gs, fl), ts) ← readLines f fl ts
        pure ((g :: gs, fl), ts)
      else pure (([g], fl), ts)

  def readPolygons : Nat → Flags → List Tok → P ((List G × Flags) × List Tok)
    | 0, _, _ => .error .fuel
    | f + 1, fl, ts => do
      let ((g, fl), ts) ← readPolygon f fl ts
      let (more, ts) ← closerOrComma ts
      if more then
        let ((gs, fl), ts) ← readPolygons f fl ts
        pure ((g :: gs, fl), ts)
      else pure (([g], fl), ts)

  /-- `readSurfaceText` -/
  def readSurface : Nat → Flags → List Tok → P ((G × Flags) × List Tok)
    | 0, _, _ => .error .fuel
    | f + 1, fl, ts =>
      match ts with
      | .lp :: _ => readPolygon f fl ts
      | _ => do
        let (g, ts) ← readTagged f fl .polygon ts
        if isSurface g then pure ((g, fl), ts) else .error .parse

  def readSurfaces : Nat → Flags → List Tok → P ((List G × Flags) × List Tok)
    | 0, _, _ => .error .fuel
    | f + 1, fl, ts => do
      let ((g, fl), ts) ← readSurface f fl ts
      let (more, ts) ← closerOrComma ts
      if more then
        let ((gs, fl), ts) ← readSurfaces f fl ts
        pure ((g :: gs, fl), ts)
      else pure (([g], fl), ts)

  /-- children of a GEOMETRYCOLLECTION -/
  def readGeoms : Nat → Flags → List Tok → P ((List G) × List Tok)
    | 0, _, _ => .error .fuel
    | f + 1, fl, ts => do
      let (g, ts) ← readTagged f fl .none ts
      let (more, ts) ← closerOrComma ts
      if more then
        let (gs, ts) ← readGeoms f fl ts
        pure (g :: gs, ts)
      else pure ([g], ts)
end

/-- `WKTReader::read`: one tagged geometry, then end of input.  Fuel: one nesting level through
`readTagged → readBody → readCurvePolygon → readCurves → readCurve → readTagged` uses 5 units for 2 tokens, so the
number of tokens is not enough; `3·tokens + 4` always is (rank argument, proved for C11). -/
def readToks (ts : List Tok) : Except Err G :=
  match readTagged (3 * ts.length + 4) {} .none ts with
  | .ok (g, []) => .ok g
  | .ok (_, _ :: _) => .error .parse
  | .error e => .error e

def read (s : String) : Except Err G := readToks (tokenize s.toList)

end GeosModel.WKT
