import GeosModel.Base.Kernel
/-!
Exact, executable contract checkers for the simplifiers that are *not* modelled algorithmically
(TopologyPreservingSimplifier, PolygonHullSimplifier, CoverageSimplifier).  Outputs of these simplifiers only
contain input vertices, so after scaling every double to an integer multiple of one power of two
(`F64.scaleAll`) all tests below are exact integer computations built on `Base/Kernel`.

Conventions: a ring is a closed vertex list (first = last); `core r = r.dropLast` are its distinct vertices.
"Strict" validity = *contact-free*: no vertex is repeated anywhere and two segments meet only in the endpoint
shared by consecutive segments of one component.  It implies OGC validity; the generators only emit
contact-free inputs for the `tps` and `hull` streams.  Core Lean only.
-/
namespace GeosModel.Simplify
open GeosModel.Kernel

abbrev Ring := List Pt
abbrev Seg := Pt × Pt

def segs (l : List Pt) : List Seg := edges l

def closed (r : List Pt) : Bool :=
  match r.head?, r.getLast? with
  | some a, some b => decide (a = b)
  | _, _ => false

def core (r : Ring) : List Pt := r.dropLast

/-- the vertices of a line that must be pairwise distinct: all of them, or all but the closing one -/
def lineVerts (l : List Pt) : List Pt := if closed l then l.dropLast else l

/-- membership test through `DecidableEq` -/
def memB (v : Pt) (l : List Pt) : Bool := l.any fun w => decide (v = w)

/-- `isSub a b`: `a` is a subsequence of `b` -/
def isSub : List Pt → List Pt → Bool
  | [], _ => true
  | _ :: _, [] => false
  | a :: as, b :: bs => if a = b then isSub as bs else isSub (a :: as) bs

/-- `out` is a subsequence of some rotation of `inp` (ring vertex lists without the closing vertex) -/
def cyclicSub (out inp : List Pt) : Bool :=
  (List.range (max inp.length 1)).any fun k => isSub out (inp.rotateLeft k)

/-- every unordered pair satisfies `ok` -/
def allPairs {α : Type} (ok : α → α → Bool) : List α → Bool
  | [] => true
  | a :: r => r.all (ok a) && allPairs ok r

def shareEnd (s t : Seg) : Bool :=
  decide (s.1 = t.1) || decide (s.1 = t.2) || decide (s.2 = t.1) || decide (s.2 = t.2)

/-- contact-free compatibility of two segments: disjoint, or exactly one common point which is an endpoint of both -/
def segOKStrict (s t : Seg) : Bool :=
  match segRel s.1 s.2 t.1 t.2 with
  | .disjoint => true
  | .point false => shareEnd s t
  | _ => false

def sameSeg (s t : Seg) : Bool :=
  (decide (s.1 = t.1) && decide (s.2 = t.2)) || (decide (s.1 = t.2) && decide (s.2 = t.1))

/-- compatibility inside a coverage: identical (shared edge), or as in the strict case -/
def segOKCov (s t : Seg) : Bool := sameSeg s t || segOKStrict s t

/-- no proper crossing (used between an input ring and its hull) -/
def noProperCross (s t : Seg) : Bool :=
  match segRel s.1 s.2 t.1 t.2 with
  | .point true => false
  | _ => true

def headIn (r : Ring) (f : Pt → Bool) : Bool := match r.head? with | some v => f v | none => false

/-- nesting conditions of one polygon `shell :: holes` whose rings are already known to be contact-free:
each hole has a vertex strictly inside the shell and strictly outside every other hole -/
def polyNestOK : List Ring → Bool
  | [] => false
  | sh :: hs =>
    hs.all (fun h => headIn h fun v => locateInRing v sh == .interior) &&
    allPairs (fun h1 h2 => headIn h1 (fun v => locateInRing v h2 == .exterior) &&
                           headIn h2 (fun v => locateInRing v h1 == .exterior)) hs

def shellOutside (a b : List Ring) : Bool :=
  match a with
  | [] => false
  | sh :: _ => headIn sh fun v => locateInPolygon v b == .exterior

/-- contact-free validity of a set of lines and polygons (see the header) -/
def strictlyValid (lines : List (List Pt)) (polys : List (List Ring)) : Bool :=
  let rings := polys.flatMap id
  lines.all (fun l => decide ((if closed l then 4 else 2) ≤ l.length)) &&
  rings.all (fun r => closed r && decide (4 ≤ r.length)) &&
  decide ((lines.flatMap lineVerts ++ rings.flatMap core).Nodup) &&
  allPairs segOKStrict (lines.flatMap segs ++ rings.flatMap segs) &&
  polys.all polyNestOK &&
  allPairs (fun a b => shellOutside a b && shellOutside b a) polys

def strictlyValidPolys (polys : List (List Ring)) : Bool := strictlyValid [] polys

/-! ### TopologyPreservingSimplifier -/

/-- one linear component: open line / closed `LineString` (endpoints kept, ≥ 2 resp. 4 points) -/
def tpsLineOK (inp out : List Pt) : Bool :=
  isSub out inp && decide (out.head? = inp.head?) && decide (out.getLast? = inp.getLast?) &&
  decide ((if closed inp then 4 else 2) ≤ out.length)

/-- one ring (`LinearRing`): closed, ≥ 4 points, vertices a cyclic subsequence (the start vertex may go) -/
def tpsRingOK (inp out : Ring) : Bool :=
  closed out && decide (4 ≤ out.length) && cyclicSub (core out) (core inp)

def zipAll {α : Type} (f : α → α → Bool) : List α → List α → Bool
  | [], [] => true
  | a :: as, b :: bs => f a b && zipAll f as bs
  | _, _ => false

/-- the exact part of the TPS contract: same number of lines, polygons and rings; every component a vertex
subsequence with endpoints kept; the output contact-free valid -/
def tpsCheck (inLines outLines : List (List Pt)) (inPolys outPolys : List (List Ring)) : Bool :=
  zipAll tpsLineOK inLines outLines &&
  zipAll (zipAll tpsRingOK) inPolys outPolys &&
  strictlyValid outLines outPolys

/-! ### PolygonHullSimplifier -/

/-- hull of one ring.  `grow = true`: the hull must contain the ring (outer hull of a shell, inner hull's holes);
`grow = false`: the hull must lie inside the ring. -/
def ringHullOK (grow : Bool) (inp out : Ring) : Bool :=
  closed out && decide (4 ≤ out.length) &&
  (cyclicSub (core out) (core inp) || cyclicSub (core out) (core inp).reverse) &&
  (if grow then inp.all (fun v => locateInRing v out != .exterior)
   else inp.all (fun v => locateInRing v out != .interior)) &&
  (segs inp).all (fun s => (segs out).all (noProperCross s))

def polyHullOK (outer : Bool) : List Ring → List Ring → Bool
  | shi :: hsi, sho :: hso => ringHullOK outer shi sho && zipAll (ringHullOK (!outer)) hsi hso
  | _, _ => false

def hullCheck (outer : Bool) (inPolys outPolys : List (List Ring)) : Bool :=
  zipAll (polyHullOK outer) inPolys outPolys && strictlyValidPolys outPolys

/-! ### CoverageSimplifier -/

def normSeg (s : Seg) : Seg :=
  if s.1.x < s.2.x || (s.1.x == s.2.x && s.1.y ≤ s.2.y) then s else (s.2, s.1)

def segCount (all : List Seg) (s : Seg) : Nat := (all.filter (sameSeg s)).length

def ringCountOf (rings : List Ring) (v : Pt) : Nat := (rings.filter fun r => memB v (core r)).length

/-- cyclic consecutive pairs of a ring given by its core -/
def cycPairs (c : List Pt) : List Seg :=
  match c with
  | [] => []
  | a :: _ => edges (c ++ [a])

/-- the input segments of the ring with core `c` walked from vertex `u` forward to vertex `v` -/
def span (c : List Pt) (u v : Pt) : List Seg :=
  let i := c.idxOf u
  let j := c.idxOf v
  let r := c.rotateLeft i
  let len := if i < j then j - i else c.length - i + j
  (edges (r ++ r.take 1)).take len

/-- the output ring's vertices in the orientation of the input ring (`CoverageRingEdges::buildRing` may return a ring
with the opposite orientation) -/
def alignedCore (inp out : Ring) : List Pt :=
  if cyclicSub (core out) (core inp) then core out else (core out).reverse

/-- one output ring against its input ring: every output segment replaces a stretch of input segments that was
entirely shared (then the new segment is shared too: it occurs in exactly 2 output rings) or entirely on the
boundary of the coverage (then it occurs once) -/
def covRingOK (inAll outAll : List Seg) (inp out : Ring) : Bool :=
  closed out && decide (4 ≤ out.length) && cyclicSub (alignedCore inp out) (core inp) &&
  (cycPairs (alignedCore inp out)).all fun s =>
    let sp := span (core inp) s.1 s.2
    !sp.isEmpty &&
    ((sp.all (fun e => segCount inAll e == 2) && segCount outAll s == 2) ||
     (sp.all (fun e => segCount inAll e == 1) && segCount outAll s == 1))

/-- vertices that lie on three or more rings stay in every ring that had them -/
def covNodesOK (inRings : List Ring) (inp out : Ring) : Bool :=
  (core inp).all fun v => decide (ringCountOf inRings v < 3) || memB v (core out)

/-- with boundary preservation every boundary segment of the input is still there -/
def covBoundaryOK (inAll : List Seg) (inp out : Ring) : Bool :=
  (segs inp).all fun e => segCount inAll e != 1 || (segs out).any (sameSeg e)

def covCheck (preserveBoundary : Bool) (inPolys outPolys : List (List Ring)) : Bool :=
  let inRings := inPolys.flatMap id
  let outRings := outPolys.flatMap id
  let inAll := inRings.flatMap segs
  let outAll := outRings.flatMap segs
  zipAll (zipAll fun i o => covRingOK inAll outAll i o && covNodesOK inRings i o &&
            (!preserveBoundary || covBoundaryOK inAll i o)) inPolys outPolys &&
  outRings.all (fun r => decide ((core r).Nodup)) &&
  allPairs segOKCov (outAll.map normSeg).eraseDups

/-- the precondition the generator promises: the input itself is such a coverage -/
def covInputOK (inPolys : List (List Ring)) : Bool :=
  let inRings := inPolys.flatMap id
  let inAll := inRings.flatMap segs
  inRings.all (fun r => closed r && decide (4 ≤ r.length) && decide ((core r).Nodup)) &&
  inAll.all (fun s => decide (segCount inAll s ≤ 2)) &&
  allPairs segOKCov (inAll.map normSeg).eraseDups

end GeosModel.Simplify
