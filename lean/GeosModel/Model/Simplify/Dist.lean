import GeosModel.Base.Cxx
import GeosModel.Model.Simplify.DP
/-!
The instance of `DP.Ops` that `DouglasPeuckerLineSimplifier` runs: points are `CoordinateXY`, the distance is
`LineSegment::distance(p)` = `algorithm::Distance::pointToSegment(p, p0, p1)` (src/algorithm/Distance.cpp), the comparisons
are the C++ operators on `double`, `maxDistance` starts at `-1.0`.

Written over the arithmetic interface `Cxx.Math R` of regenerated C++ (Base/Cxx.lean): the *same* operations in the *same*
order as the C++, for any carrier.  The driver (`drv_c18 dp`) instantiates it with hardware doubles (`R := Float`) and must
reproduce `GEOSSimplify_r` bit for bit; `Props/C18Gen.lean` proves the definitions regenerated from the current C++ source
equal to these for **every** carrier — no algebraic law is used, so a re-association or re-ordering of floating-point
operations in the C++ is (rightly) not accepted as harmless.  Core Lean only.
-/
namespace GeosModel.DP
open GeosModel.Cxx

variable {R : Type} [Math R]

/-- `CoordinateXY::equals2D` / `operator==` -/
def eq2D (a b : XY R) : Bool := Ord.eq a.x b.x && Ord.eq a.y b.y

/-- `CoordinateXY::distance` -/
def ptDist (p a : XY R) : R :=
  let dx := Ring.sub p.x a.x
  let dy := Ring.sub p.y a.y
  Math.sqrt (Ring.add (Ring.mul dx dx) (Ring.mul dy dy))

/-- `algorithm::Distance::pointToSegment(p, A, B)` — same operations in the same order -/
def pointToSegment (p A B : XY R) : R :=
  if eq2D A B then ptDist p A
  else
    let len2 := Ring.add (Ring.mul (Ring.sub B.x A.x) (Ring.sub B.x A.x)) (Ring.mul (Ring.sub B.y A.y) (Ring.sub B.y A.y))
    let r := Field.div (Ring.add (Ring.mul (Ring.sub p.x A.x) (Ring.sub B.x A.x)) (Ring.mul (Ring.sub p.y A.y) (Ring.sub B.y A.y))) len2
    if Ord.le r (Ring.ofInt 0) then ptDist p A
    else if Ord.le (Ring.ofInt 1) r then ptDist p B
    else
      let s := Field.div (Ring.sub (Ring.mul (Ring.sub A.y p.y) (Ring.sub B.x A.x)) (Ring.mul (Ring.sub A.x p.x) (Ring.sub B.y A.y))) len2
      Ring.mul (Ring.abs s) (Math.sqrt len2)

/-- the instance the C++ runs: `seg.distance(p)`, `>` and `<=` on doubles, `-1.0`, `operator==` -/
def cxxOps : Ops (XY R) R :=
  { dist := fun a b p => pointToSegment p a b
    gt := fun x y => Ord.lt y x
    le := fun x y => Ord.le x y
    init := Ring.neg (Ring.ofInt 1)
    eq := eq2D }

end GeosModel.DP
