import GeosModel.Base.Env
import GeosModel.Model.Kernel.RayCount
/-!
# C18 — `simplify::ComponentJumpChecker` (src/simplify/ComponentJumpChecker.cpp), branch by branch

`TaggedLineStringSimplifier::isTopologyValid` refuses to flatten a section of a line if some *other* component of the
input (ring or line, represented by one point of it) would end up on the other side of the line.  The test: for every
other component whose point lies in the bounding box of the section, the parity of ray crossings of the section differs
from the parity of ray crossings of the flattening segment.  Points are exact (`Int` after scaling); the crossing count is
`RayCrossingCounter::countSegment` (Model/Kernel/RayCount.lean).  Core Lean only.
-/
namespace GeosModel.Jump
open GeosModel.Kernel GeosModel.RayCount

abbrev Seg := Pt × Pt

/-- the counting loops of the three `crossingCount` overloads: `countSegment` over the given segments, then `getCount()` -/
def countSegs (p : Pt) : RCC → List Seg → RCC
  | st, [] => st
  | st, s :: r => countSegs p (countSegment p st s.1 s.2) r

def crossingCount (p : Pt) (segs : List Seg) : Nat := (countSegs p RCC.init segs).count

/-- the vertices `start .. end` (inclusive) of the line -/
def sectionPts (line : List Pt) (start stop : Nat) : List Pt := (line.drop start).take (stop + 1 - start)

/-- the segments `(line[i], line[i+1])`, `start ≤ i < end`, in order -/
def sectionSegs (line : List Pt) (start stop : Nat) : List Seg := edges (sectionPts line start stop)

def ptBox (p : Pt) : Env := some ⟨p.x, p.x, p.y, p.y⟩

/-- `computeEnvelope`: `expandToInclude` of the given points in turn -/
def envOf (ps : List Pt) : Env := ps.foldl (fun e p => Env.union e (ptBox p)) none

/-- `computeEnvelope(line, start, end)`: the vertices `start .. end` inclusive -/
def sectionEnv (line : List Pt) (start stop : Nat) : Env := envOf (sectionPts line start stop)

/-- `hasJumpAtComponent` (both overloads: `sect` is the replaced section, `seg` the flattening segment) -/
def hasJumpAtComponent (compPt : Pt) (sect : List Seg) (seg : Seg) : Bool :=
  crossingCount compPt sect % 2 != crossingCount compPt [seg] % 2

/-- the loop over `components` of both `hasJump` overloads; a component is its position in the vector (its identity)
and its component point; `self` is the line being simplified (`if (comp == line) continue`) -/
def hasJumpLoop (self : Nat) (env : Env) (sect : List Seg) (seg : Seg) : List (Nat × Pt) → Bool
  | [] => false
  | (i, compPt) :: r =>
    if i = self then hasJumpLoop self env sect seg r
    else if Env.containsPt env compPt.x compPt.y then
      if hasJumpAtComponent compPt sect seg then true else hasJumpLoop self env sect seg r
    else hasJumpLoop self env sect seg r

/-- `hasJump(line, start, end, seg)` -/
def hasJumpSection (comps : List (Nat × Pt)) (self : Nat) (line : List Pt) (start stop : Nat) (seg : Seg) : Bool :=
  hasJumpLoop self (sectionEnv line start stop) (sectionSegs line start stop) seg comps

/-- `hasJump(line, seg1, seg2, seg)` -/
def hasJumpSegs (comps : List (Nat × Pt)) (self : Nat) (seg1 seg2 seg : Seg) : Bool :=
  hasJumpLoop self (envOf [seg1.1, seg1.2, seg2.1, seg2.2]) [seg1, seg2] seg comps

end GeosModel.Jump
