import GeosModel.Base.Env
/-!
# C18 — `index::VertexSequencePackedRtree` (src/index/VertexSequencePackedRtree.cpp), followed function by function

The vertex index used by `RingHull` ("does any vertex lie in the corner triangle?") and by `TPVWSimplifier::Edge`
(coverage simplification).  The C++ keeps one flat `bounds` array; level `l` occupies the positions
`levelOffset[l] .. levelOffset[l+1]-1`, level 0 being the envelopes of 16 consecutive items, the last level a single
node.  The model keeps exactly these four members (flat lists) and the same index arithmetic.
Ordinates are order keys (`F64.key` of the doubles): the class only compares ordinates.  Core Lean only.
-/
namespace GeosModel.VSPR

/-- `NODE_CAPACITY` -/
def cap : Nat := 16

structure Tree where
  items : List (Int × Int)
  removedItems : List Bool
  levelOffset : List Nat
  bounds : List Env
deriving Repr

/-- `ceilDivisor` -/
def ceilDivisor (num denom : Nat) : Nat :=
  let d := num / denom
  if d * denom ≥ num then d else d + 1

/-- `clampMax` -/
def clampMax (x m : Nat) : Nat := if x > m then m else x

/-- `levelNodeCount` -/
def levelNodeCount (numNodes : Nat) : Nat := ceilDivisor numNodes cap

/-- the `do … while (szLevel > 1)` loop of `computeLevelOffsets` (fuel: the level size shrinks) -/
def levelOffsetsGo : Nat → Nat → Nat → List Nat
  | 0, _, _ => []
  | f + 1, sz, cur =>
    let sz' := levelNodeCount sz
    let cur' := cur + sz'
    cur' :: (if sz' > 1 then levelOffsetsGo f sz' cur' else [])

/-- `computeLevelOffsets` -/
def computeLevelOffsets (n : Nat) : List Nat := 0 :: levelOffsetsGo (n + 1) n 0

def ptBox (p : Int × Int) : Env := some ⟨p.1, p.1, p.2, p.2⟩

/-- `computeItemEnvelope(items, start, end)` -/
def computeItemEnvelope (items : List (Int × Int)) (s e : Nat) : Env :=
  ((items.drop s).take (e - s)).foldl (fun env p => Env.union env (ptBox p)) none

/-- `computeNodeEnvelope(bnds, start, end)` -/
def computeNodeEnvelope (bnds : List Env) (s e : Nat) : Env :=
  ((bnds.drop s).take (e - s)).foldl (fun env b => Env.union env b) none

/-- the `do … while (nodeStart < items.size())` loop of `fillItemBounds` -/
def fillItemBoundsGo (items : List (Int × Int)) : Nat → Nat → Nat → List Env → List Env
  | 0, _, _, b => b
  | f + 1, nodeStart, bndIndex, b =>
    let nodeEnd := clampMax (nodeStart + cap) items.length
    let b' := b.set bndIndex (computeItemEnvelope items nodeStart nodeEnd)
    if nodeEnd < items.length then fillItemBoundsGo items f nodeEnd (bndIndex + 1) b' else b'

/-- the `do … while (nodeStart < levelEnd)` loop of `fillLevelBounds` -/
def fillLevelBoundsGo (levelEnd : Nat) : Nat → Nat → Nat → List Env → List Env
  | 0, _, _, b => b
  | f + 1, nodeStart, levelBndIndex, b =>
    let nodeEnd := clampMax (nodeStart + cap) levelEnd
    let b' := b.set levelBndIndex (computeNodeEnvelope b nodeStart nodeEnd)
    if nodeEnd < levelEnd then fillLevelBoundsGo levelEnd f nodeEnd (levelBndIndex + 1) b' else b'

/-- `fillLevelBounds(lvl, bnds)` -/
def fillLevelBounds (lo : List Nat) (lvl : Nat) (b : List Env) : List Env :=
  fillLevelBoundsGo (lo.getD lvl 0) (b.length + 1) (lo.getD (lvl - 1) 0) (lo.getD lvl 0) b

/-- `createBounds` -/
def createBounds (items : List (Int × Int)) (lo : List Nat) : List Env :=
  let b0 : List Env := List.replicate (lo.getLastD 0 + 1) none
  let b1 := fillItemBoundsGo items (items.length + 1) 0 0 b0
  (List.range (lo.length - 1)).foldl (fun b k => fillLevelBounds lo (k + 1) b) b1

/-- the constructor (`build`) -/
def build (items : List (Int × Int)) : Tree :=
  let lo := computeLevelOffsets items.length
  { items := items, removedItems := List.replicate items.length false, levelOffset := lo, bounds := createBounds items lo }

/-! ### query -/

def off (t : Tree) (level : Nat) : Nat := t.levelOffset.getD level 0

/-- `levelSize(level)` -/
def levelSize (t : Tree) (level : Nat) : Nat := off t (level + 1) - off t level

/-- the bounds entry of node `k` of level `l` -/
def bnd (t : Tree) (level k : Nat) : Env := t.bounds.getD (off t level + k) none

def isRemoved (t : Tree) (i : Nat) : Bool := t.removedItems.getD i true

def item (t : Tree) (i : Nat) : Int × Int := t.items.getD i (0, 0)

/-- `queryItemRange`: the (at most 16) items from `itemIndex` on that are not removed and lie in the query box -/
def queryItemRange (t : Tree) (q : Env) (itemIndex : Nat) : List Nat :=
  (List.range cap).flatMap fun i =>
    let index := itemIndex + i
    if index ≥ t.items.length then []
    else if !isRemoved t index && Env.containsPt q (item t index).1 (item t index).2 then [index] else []

/-- `queryNode` / `queryNodeRange` (mutually recursive in the C++; the level decreases) -/
def queryNode (t : Tree) (q : Env) : Nat → Nat → List Nat
  | 0, nodeIndex =>
    let nodeEnv := bnd t 0 nodeIndex
    if nodeEnv.isNull then [] else if !Env.inter q nodeEnv then []
    else queryItemRange t q (nodeIndex * cap)
  | level + 1, nodeIndex =>
    let nodeEnv := bnd t (level + 1) nodeIndex
    if nodeEnv.isNull then [] else if !Env.inter q nodeEnv then []
    else (List.range cap).flatMap fun i =>
      let index := nodeIndex * cap + i
      if index ≥ levelSize t level then [] else queryNode t q level index

/-- `query(queryEnv, result)` -/
def query (t : Tree) (q : Env) : List Nat := queryNode t q (t.levelOffset.length - 1) 0

/-! ### remove -/

/-- `isItemsNodeEmpty(nodeIndex)` -/
def isItemsNodeEmpty (t : Tree) (nodeIndex : Nat) : Bool :=
  let s := nodeIndex * cap
  let e := clampMax (s + cap) t.items.length
  (List.range (e - s)).all fun i => isRemoved t (s + i)

/-- `isNodeEmpty(level, index)` (only ever called with `level = 1`) -/
def isNodeEmpty (t : Tree) (level index : Nat) : Bool :=
  let s := index * cap
  let e := clampMax (s + cap) (off t level)
  (List.range (e - s)).all fun i => (t.bounds.getD (s + i) none).isNull

/-- `removedItems[index] = true` -/
def markRemoved (t : Tree) (index : Nat) : Tree := { t with removedItems := t.removedItems.set index true }

/-- `bounds[p].setToNull()` -/
def nullBound (t : Tree) (p : Nat) : Tree := { t with bounds := t.bounds.set p none }

/-- `remove(index)` -/
def remove (t : Tree) (index : Nat) : Tree :=
  let t1 := markRemoved t index
  -- prune the item parent node if all its items are removed
  let nodeIndex := index / cap
  if !isItemsNodeEmpty t1 nodeIndex then t1 else
  let t2 := nullBound t1 nodeIndex
  if t2.levelOffset.length ≤ 2 then t2 else
  -- prune the node parent if all children removed
  let nodeLevelIndex := nodeIndex / cap
  if !isNodeEmpty t2 1 nodeLevelIndex then t2 else
  -- (the C++ stops here: "TODO: propagate removal up the tree nodes?")
  nullBound t2 (off t2 1 + nodeLevelIndex)

/-! ### decidable well-formedness (run by the driver on every tree it builds; Proofs/Simplify/VertexIndex.lean: it is kept by
`remove` and makes `query` exact) -/

/-- what `computeLevelOffsets` guarantees (decidable; the driver checks it on every tree it builds): at least two
entries, first 0, increasing, level 0 has `ceil(n/16)` nodes, each further level `ceil(previous/16)`, the last but one
level has one node (the last level is the root above it) -/
def Shape (t : Tree) : Prop :=
  2 ≤ t.levelOffset.length ∧ off t 0 = 0 ∧
  (∀ l, l < t.levelOffset.length - 1 → off t l ≤ off t (l + 1)) ∧
  levelSize t 0 = ceilDivisor t.items.length cap ∧
  (∀ l, l < t.levelOffset.length - 2 → levelSize t (l + 1) = ceilDivisor (levelSize t l) cap) ∧
  levelSize t (t.levelOffset.length - 2) = 1

instance (t : Tree) : Decidable (Shape t) := by unfold Shape; exact inferInstance

def nodeOK (p c : Env) : Bool :=
  match c with
  | none => true
  | some _ => Env.covers p c

/-- executable form of `Inv` (envelope containment instead of pointwise containment) -/
def InvC (t : Tree) : Prop :=
  (∀ i, i < t.items.length → isRemoved t i = false →
      Env.containsPt (bnd t 0 (i / cap)) (item t i).1 (item t i).2 = true) ∧
  (∀ l, l < t.levelOffset.length - 1 → ∀ c, c < levelSize t l → nodeOK (bnd t (l + 1) (c / cap)) (bnd t l c) = true)

instance (t : Tree) : Decidable (InvC t) := by unfold InvC; exact inferInstance

/-- the check the driver runs -/
def wfCheck (t : Tree) : Bool := decide (Shape t) && decide (InvC t)

end GeosModel.VSPR
