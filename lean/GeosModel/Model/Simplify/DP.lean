/-
Model of `geos::simplify::DouglasPeuckerLineSimplifier` (src/simplify/DouglasPeuckerLineSimplifier.cpp).

Generic over the point type `Pt`, the distance carrier `D`, and the operations the C++ uses:
`seg.distance(p)` (= `Distance::pointToSegment`), `>` and `<=` on doubles, the initial `maxDistance = -1.0`,
and `CoordinateXY::operator==` (used by `isRing` / `closeRing`).

A *section* `(i, j)` of the C++ is represented by its first point `a = pts[i]`, its interior
`mid = pts[i+1 .. j-1]` and its last point `b = pts[j]`; `usePt[i+1 .. j-1]` is the returned mask.
Recursion is on a fuel argument (`mid.length + 1` always suffices, see `Proofs/Simplify/DP.lean`).
Core Lean only.
-/
namespace GeosModel.DP

structure Ops (Pt D : Type) where
  /-- `dist a b p` = `LineSegment(a, b).distance(p)` -/
  dist : Pt → Pt → Pt → D
  /-- C++ `x > y` -/
  gt : D → D → Bool
  /-- C++ `x <= y` -/
  le : D → D → Bool
  /-- the initial value of `maxDistance` (`-1.0`) -/
  init : D
  /-- `CoordinateXY::operator==` (2D value equality) -/
  eq : Pt → Pt → Bool

variable {Pt D : Type}

/-- the farthest-vertex loop of `simplifySection`:
```
double maxDistance = -1.0;  std::size_t maxIndex = i;
for (k = i + 1; k < j; k++) { double distance = seg.distance(pts[k]);
    if (distance > maxDistance) { maxDistance = distance; maxIndex = k; } }
```
`acc = (maxDistance, maxIndex)`; the index is relative to the section interior, `none` = still `i`. -/
def scan (o : Ops Pt D) (a b : Pt) : List Pt → Nat → D × Option Nat → D × Option Nat
  | [], _, acc => acc
  | p :: ps, k, acc =>
    scan o a b ps (k + 1) (if o.gt (o.dist a b p) acc.1 then (o.dist a b p, some k) else acc)

/-- `farthest o a b mid = (maxDistance, maxIndex)` for the section `a, mid…, b` -/
def farthest (o : Ops Pt D) (a b : Pt) (mid : List Pt) : D × Option Nat :=
  scan o a b mid 0 (o.init, none)

/-- `simplifySection(i, j)`: the list of interior vertices whose `usePt` flag stays `true`.
* `(i + 1) == j` (empty interior): nothing to do;
* `maxDistance <= distanceTolerance`: every interior vertex is dropped;
* otherwise split at `maxIndex` (which is kept) and recurse on both halves.
If no vertex ever exceeded the initial `-1.0` and `-1.0 <= tolerance` is false the C++ recurses forever
(`simplifySection(i, i)`); this cannot happen for a tolerance ≥ 0, the model keeps the section unchanged.
Out of fuel: section unchanged (never reached with the fuel `simplifyLine` supplies). -/
def sect (o : Ops Pt D) (tol : D) : Nat → Pt → List Pt → Pt → List Pt
  | 0, _, mid, _ => mid
  | fuel + 1, a, mid, b =>
    match mid with
    | [] => []
    | _ :: _ =>
      let r := farthest o a b mid
      if o.le r.1 tol then []
      else match r.2 with
        | none => mid
        | some k =>
          match mid.drop k with
          | [] => mid
          | m :: rest => sect o tol fuel a (mid.take k) m ++ m :: sect o tol fuel m rest b

/-- the same recursion, returning the `usePt` mask of the interior (one flag per interior vertex) -/
def sectionMask (o : Ops Pt D) (tol : D) : Nat → Pt → List Pt → Pt → List Bool
  | 0, _, mid, _ => mid.map fun _ => true
  | fuel + 1, a, mid, b =>
    match mid with
    | [] => []
    | _ :: _ =>
      let r := farthest o a b mid
      if o.le r.1 tol then mid.map fun _ => false
      else match r.2 with
        | none => mid.map fun _ => true
        | some k =>
          match mid.drop k with
          | [] => mid.map fun _ => true
          | m :: rest => sectionMask o tol fuel a (mid.take k) m ++ true :: sectionMask o tol fuel m rest b

/-- the collecting loop `for i: if (usePt[i]) coordList->add(pts[i])` -/
def applyMask : List Pt → List Bool → List Pt
  | p :: ps, u :: us => if u then p :: applyMask ps us else applyMask ps us
  | _, _ => []

/-- `simplify()` up to (not including) the ring post-step: `usePt` all true, `simplifySection(0, n-1)`, collect. -/
def simplifyLine (o : Ops Pt D) (tol : D) (pts : List Pt) : List Pt :=
  match pts with
  | [] => []
  | a :: rest =>
    match rest.getLast? with
    | none => [a]
    | some b => a :: (sect o tol rest.length a rest.dropLast b ++ [b])

/-- the same through the mask, exactly as the C++ does it -/
def simplifyLineMask (o : Ops Pt D) (tol : D) (pts : List Pt) : List Pt :=
  match pts with
  | [] => []
  | a :: rest =>
    match rest.getLast? with
    | none => [a]
    | some b => applyMask pts (true :: (sectionMask o tol rest.length a rest.dropLast b ++ [true]))

/-- `CoordinateSequence::isRing`: at least 4 points and first == last -/
def isRing (o : Ops Pt D) (pts : List Pt) : Bool :=
  decide (4 ≤ pts.length) &&
    match pts.head?, pts.getLast? with
    | some a, some b => o.eq a b
    | _, _ => false

/-- `CoordinateSequence::closeRing()` -/
def closeRing (o : Ops Pt D) (l : List Pt) : List Pt :=
  match l.head?, l.getLast? with
  | some a, some b => if o.eq a b then l else l ++ [a]
  | _, _ => l

/-- the vertices `coordList[1 .. size-2]` that survive when the ring start vertex is removed -/
def ringCore (out : List Pt) : List Pt := out.tail.dropLast

/-- the condition of the ring post-step of `simplify()`:
```
if (simplifyRing && coordList->size() > LinearRing::MINIMUM_VALID_SIZE /* = 3 */) {
    LineSegment seg(coordList[size - 2], coordList[1]);
    if (seg.distance(coordList[0]) <= distanceTolerance) { ret = coordList[1 .. size-2]; ret->closeRing(); } }
``` -/
def ringFires (o : Ops Pt D) (tol : D) (out : List Pt) : Bool :=
  decide (3 < out.length) &&
    match out, out.dropLast.getLast? with
    | p0 :: p1 :: _, some q => o.le (o.dist q p1 p0) tol
    | _, _ => false

def ringStep (o : Ops Pt D) (tol : D) (out : List Pt) : List Pt :=
  if ringFires o tol out then closeRing o (ringCore out) else out

/-- `DouglasPeuckerLineSimplifier::simplify(pts, tol, preserveClosedEndpoint)` -/
def simplify (o : Ops Pt D) (tol : D) (preserveEndpoint : Bool) (pts : List Pt) : List Pt :=
  let out := simplifyLineMask o tol pts
  if !preserveEndpoint && isRing o pts then ringStep o tol out else out

end GeosModel.DP
