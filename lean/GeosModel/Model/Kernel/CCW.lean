import GeosModel.Base.Kernel
/-!
# C07 — `Orientation::isCCW`, ported over `Int` points

The extremal-vertex method of `src/algorithm/Orientation.cpp`: find the highest point reached by a
rising segment, walk forward to the next lower point, and decide by the orientation of the cap (or by
the direction of a flat top).  Loops carry explicit fuel.  Core Lean only.
-/
namespace GeosModel.CCW
open GeosModel.Kernel

def at' (ring : List Pt) (i : Nat) : Pt := ring.getD i ⟨0, 0⟩

/-- state of the first loop -/
structure Up where
  iUpHi : Nat
  upHi : Pt
  upLow : Option Pt       -- `CoordinateXY::getNull()` until a rising segment is seen
  prevY : Int
deriving Repr

/-- one iteration `i` of the rising-segment scan -/
def upStep (ring : List Pt) (s : Up) (i : Nat) : Up :=
  let py := (at' ring i).y
  let s' := if py > s.prevY ∧ py ≥ s.upHi.y then
      { s with iUpHi := i, upHi := at' ring i, upLow := some (at' ring (i - 1)) }
    else s
  { s' with prevY := py }

/-- `for (i = 1; i <= nPts; i++)` -/
def upScan (ring : List Pt) (nPts : Nat) : Up :=
  (List.range' 1 nPts).foldl (upStep ring) ⟨0, at' ring 0, none, (at' ring 0).y⟩

/-- `do { iDownLow = (iDownLow + 1) % nPts; } while (iDownLow != iUpHi && y(iDownLow) == upHi.y)` -/
def downScan (ring : List Pt) (nPts iUpHi : Nat) (hiY : Int) : Nat → Nat → Nat
  | 0, i => i
  | fuel + 1, i =>
    let i' := (i + 1) % nPts
    if i' ≠ iUpHi ∧ (at' ring i').y = hiY then downScan ring nPts iUpHi hiY fuel i' else i'

/-- `Orientation::isCCW(ring)` -/
def isCCW (ring : List Pt) : Bool :=
  if ring.length < 4 then false          -- inPts = size - 1 < 3
  else
    let nPts := ring.length - 1
    let u := upScan ring nPts
    if u.iUpHi = 0 then false
    else
      let upHi := u.upHi
      let upLow := u.upLow.getD ⟨0, 0⟩
      let iDownLow := downScan ring nPts u.iUpHi upHi.y (nPts + 1) u.iUpHi
      let downLow := at' ring iDownLow
      let iDownHi := if iDownLow > 0 then iDownLow - 1 else nPts - 1
      let downHi := at' ring iDownHi
      if upHi = downHi then
        if upLow = upHi ∨ downLow = upHi ∨ upLow = downLow then false
        else orient upLow upHi downLow == 1
      else
        decide (downHi.x - upHi.x < 0)

/-- the specification for rings of non-zero area: counter-clockwise iff the signed area is positive -/
def ccwSpec (ring : List Pt) : Bool := decide (area2 ring > 0)

end GeosModel.CCW
