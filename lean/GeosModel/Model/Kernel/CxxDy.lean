import GeosModel.Base.Cxx
import GeosModel.Model.Kernel.Filter
/-!
# C07 — rounded dyadic arithmetic as a carrier of regenerated C++ code

`translate/cxx2lean.py` turns C++ `double` code into definitions over an abstract carrier `R` with the operations of
`GeosModel.Cxx`.  The hand-written models of `Model/Kernel/Filter.lean` read every C++ `double` operation as
`rnd (exact operation)` on dyadic rationals.  `Rd rnd` is that reading as a carrier: a `Dy` in a one-field structure indexed by `rnd`, `+ − ×` are
`fadd / fsub / fmul rnd`, unary minus and `|·|` are exact (they only touch the sign), comparisons compare values,
integer literals are the exact dyadic (the regenerated code only contains `0`, `±1` and `2^27 + 1`, all exactly
representable), decimal literals are converted as a compiler converts them: to the nearest binary64 value, ties to even
(`decToDy`, independent of `rnd`), in the representation with an odd mantissa.

With `rnd = roundNE` this is the machine; the bridge theorems of `Props/C07Gen.lean` hold for every `rnd`.
Core Lean only.
-/
namespace GeosModel.Filter

/-- a `Dy` computing with rounding `rnd` after every operation -/
structure Rd (rnd : Dy → Dy) where
  v : Dy
deriving DecidableEq

/-- strip `2^j` from a positive natural: `(n / 2^j, j)` with the quotient odd (fuel-bounded) -/
def oddPart : Nat → Nat → Nat × Nat
  | 0, n => (n, 0)
  | fuel + 1, n => if n % 2 == 0 && n != 0 then let r := oddPart fuel (n / 2); (r.1, r.2 + 1) else (n, 0)

/-- the same value with an odd mantissa (zero stays the canonical zero) -/
def Dy.normOdd (a : Dy) : Dy :=
  if a.m = 0 then Dy.zero
  else
    let r := oddPart (a.m.natAbs.log2 + 1) a.m.natAbs
    ⟨if a.m < 0 then -(r.1 : Int) else (r.1 : Int), a.e + (r.2 : Int)⟩

/-- the binary64 value of the decimal literal `m × 10^e` (no overflow / underflow): round to nearest, ties to even.
For a negative exponent the quotient is formed with at least 55 significant bits plus a sticky bit, so that the single
rounding of `roundNE` is the correct rounding of the exact quotient. -/
def decToDy (m e : Int) : Dy :=
  if m = 0 then Dy.zero
  else
    let n := m.natAbs
    let r :=
      if e ≥ 0 then roundNE ⟨(n * 10 ^ e.toNat : Nat), 0⟩
      else
        let d := 10 ^ (-e).toNat
        let s := 56 + d.log2 - n.log2
        let q := (n * 2 ^ s) / d
        let sticky := if (n * 2 ^ s) % d = 0 then 0 else 1
        roundNE ⟨((2 * q + sticky : Nat) : Int), -(s : Int) - 1⟩
    Dy.normOdd (if m < 0 then Dy.neg r else r)

instance instFieldRd (rnd : Dy → Dy) : Cxx.Field (Rd rnd) where
  lt a b := Dy.lt a.v b.v
  le a b := Dy.ge b.v a.v
  eq a b := Dy.eqv a.v b.v
  add a b := ⟨fadd rnd a.v b.v⟩
  sub a b := ⟨fsub rnd a.v b.v⟩
  mul a b := ⟨fmul rnd a.v b.v⟩
  neg a := ⟨Dy.neg a.v⟩
  abs a := ⟨Dy.abs a.v⟩
  ofInt i := ⟨Dy.mk' i 0⟩
  div _ _ := ⟨Dy.zero⟩      -- no translated function divides; a bridge about code that does cannot be proved
  ofDec m e := ⟨decToDy m e⟩

section
variable (rnd : Dy → Dy)

@[simp] theorem rd_lt (a b : Rd rnd) : Cxx.Ord.lt a b = Dy.lt a.v b.v := rfl
@[simp] theorem rd_le (a b : Rd rnd) : Cxx.Ord.le a b = Dy.ge b.v a.v := rfl
@[simp] theorem rd_eq (a b : Rd rnd) : Cxx.Ord.eq a b = Dy.eqv a.v b.v := rfl
@[simp] theorem rd_add (a b : Rd rnd) : Cxx.Ring.add a b = ⟨fadd rnd a.v b.v⟩ := rfl
@[simp] theorem rd_sub (a b : Rd rnd) : Cxx.Ring.sub a b = ⟨fsub rnd a.v b.v⟩ := rfl
@[simp] theorem rd_mul (a b : Rd rnd) : Cxx.Ring.mul a b = ⟨fmul rnd a.v b.v⟩ := rfl
@[simp] theorem rd_neg (a : Rd rnd) : Cxx.Ring.neg a = ⟨Dy.neg a.v⟩ := rfl
@[simp] theorem rd_abs (a : Rd rnd) : Cxx.Ring.abs a = ⟨Dy.abs a.v⟩ := rfl
@[simp] theorem rd_ofInt (i : Int) : (Cxx.Ring.ofInt i : Rd rnd) = ⟨Dy.mk' i 0⟩ := rfl
@[simp] theorem rd_ofDec (m e : Int) : (Cxx.Field.ofDec m e : Rd rnd) = ⟨decToDy m e⟩ := rfl

end

end GeosModel.Filter
