import GeosModel.Model.Kernel.RayCount
/-!
# C07 — `SimplePointInAreaLocator::locatePointInSurface`, ported over `Int` points

The C++ (src/algorithm/locate/SimplePointInAreaLocator.cpp) is followed in order: empty surface, the envelope
reject, the shell test, then the loop over the holes with its per-hole envelope test and its early exits
(BOUNDARY of a hole → BOUNDARY, INTERIOR of a hole → EXTERIOR, EXTERIOR of a hole → keep looking).
A polygon is `shell :: holes`, every ring a vertex list.  Core Lean only.
-/
namespace GeosModel.PolyLocate
open GeosModel.Kernel GeosModel.RayCount

/-- `Envelope::contains(p)` for the envelope of a vertex list: `minx ≤ p.x ≤ maxx ∧ miny ≤ p.y ≤ maxy`
(min/max over the vertices; the null envelope of an empty list contains nothing) -/
def envContains (ring : List Pt) (p : Pt) : Bool :=
  ring.any (fun v => decide (v.x ≤ p.x)) && ring.any (fun v => decide (p.x ≤ v.x)) &&
  ring.any (fun v => decide (v.y ≤ p.y)) && ring.any (fun v => decide (p.y ≤ v.y))

/-- the loop over the interior rings -/
def holesLoop (p : Pt) : List (List Pt) → Loc
  | [] => .interior
  | h :: hs =>
    if envContains h p then
      match locatePointInRing p h with
      | .boundary => .boundary
      | .interior => .exterior
      | .exterior => holesLoop p hs
    else holesLoop p hs

/-- `SimplePointInAreaLocator::locatePointInSurface(p, surface)` -/
def locatePointInPolygon (p : Pt) : List (List Pt) → Loc
  | [] => .exterior
  | shell :: holes =>
    if !envContains shell p then .exterior          -- also the empty surface: its envelope is null
    else
      match locatePointInRing p shell with
      | .interior => holesLoop p holes
      | l => l

end GeosModel.PolyLocate
