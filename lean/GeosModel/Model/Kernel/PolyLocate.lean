import GeosModel.Model.Kernel.RayCount
/-!
# C07 — `SimplePointInAreaLocator::locatePointInSurface`, ported over `Int` points

The C++ (src/algorithm/locate/SimplePointInAreaLocator.cpp) is followed in order: empty surface, the envelope
reject, the shell test, then the loop over the holes with its per-hole envelope test and its early exits
(BOUNDARY of a hole → BOUNDARY, INTERIOR of a hole → EXTERIOR, EXTERIOR of a hole → keep looking).
A polygon is `shell :: holes`, every ring a vertex list.  Core Lean only.
-/
namespace GeosModel.PolyLocate
open GeosModel.Kernel GeosModel.RayCount

/-- `Envelope::contains(p)` for the envelope of a vertex list: `minx ≤ p.x ≤ maxx ∧ miny ≤ p.y ≤ maxy`
(min/max over the vertices; the null envelope of an empty list contains nothing) -/
def envContains (ring : List Pt) (p : Pt) : Bool :=
  ring.any (fun v => decide (v.x ≤ p.x)) && ring.any (fun v => decide (p.x ≤ v.x)) &&
  ring.any (fun v => decide (v.y ≤ p.y)) && ring.any (fun v => decide (p.y ≤ v.y))

/-- the loop over the interior rings -/
def holesLoop (p : Pt) : List (List Pt) → Loc
  | [] => .interior
  | h :: hs =>
    if envContains h p then
      match locatePointInRing p h with
      | .boundary => .boundary
      | .interior => .exterior
      | .exterior => holesLoop p hs
    else holesLoop p hs

/-- `SimplePointInAreaLocator::locatePointInSurface(p, surface)` -/
def locatePointInPolygon (p : Pt) : List (List Pt) → Loc
  | [] => .exterior
  | shell :: holes =>
    if !envContains shell p then .exterior          -- also the empty surface: its envelope is null
    else
      match locatePointInRing p shell with
      | .interior => holesLoop p holes
      | l => l


/-!
## `IndexedPointInAreaLocator::locate`

All segments of all (closed) rings are stored in an interval index keyed by their y-range; `locate` feeds every
segment whose y-range contains `p.y` to one `RayCrossingCounter` — in the index's traversal order, with no early
exit — and returns its location.
-/

/-- the segments `IntervalIndexedGeometry::init` inserts: every ring, every consecutive vertex pair -/
def allSegs (rings : List (List Pt)) : List (Pt × Pt) := rings.flatMap edges

/-- the interval query `[p.y, p.y]` against the stored interval `[min y, max y]` -/
def inYRange (p : Pt) (e : Pt × Pt) : Bool :=
  decide (min e.1.y e.2.y ≤ p.y) && decide (p.y ≤ max e.1.y e.2.y)

/-- the visitor: one counter fed with the visited segments -/
def visit (p : Pt) (es : List (Pt × Pt)) : RCC := es.foldl (fun st e => countSegment p st e.1 e.2) RCC.init

/-- `IndexedPointInAreaLocator::locate(p)` with the segments visited in insertion order -/
def locateIndexed (p : Pt) (rings : List (List Pt)) : Loc :=
  getLocation (visit p ((allSegs rings).filter (inYRange p)))

end GeosModel.PolyLocate
