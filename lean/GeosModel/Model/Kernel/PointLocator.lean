import GeosModel.Model.Kernel.PolyLocate
/-!
# C07 — the general-purpose `algorithm::PointLocator`, ported over `Int` points

`src/algorithm/PointLocator.cpp` followed member by member and test by test:

* `locate(p, Point)`        equality with the point's coordinate
* `locate(p, LineString)`   envelope reject, then — for a line that is not closed — the two end points are BOUNDARY,
                            then `PointLocation::isOnLine` decides INTERIOR / EXTERIOR
* `locateInPolygonRing`     envelope reject, then **first** `PointLocation::isOnLine` (→ BOUNDARY) and only
                            **then** `PointLocation::isInRing` (→ INTERIOR).  The order matters: `isInRing` is
                            `locateInRing ≠ EXTERIOR`, true on the ring as well as inside it.
* `locate(p, Polygon)`      shell first (EXTERIOR / BOUNDARY end the query), then the holes in order with early exits
* `computeLocation` / `updateLocationInfo`   the walk over collections with the members `isIn`, `numBoundaries`
* `locate(p, Geometry)`     LineString and Polygon answer directly, everything else through the walk and the
                            Mod-2 boundary rule (`GeometryGraph::isInBoundary`)

A geometry is the small tree `Geo`; `MULTIPOINT`, `MULTILINESTRING`, `MULTIPOLYGON` and `GEOMETRYCOLLECTION` are all
`coll` (the four loops of `computeLocation` do the same thing with their elements).  Core Lean only.
-/
namespace GeosModel.PointLocator
open GeosModel.Kernel GeosModel.RayCount GeosModel.PolyLocate

/-- the geometries `PointLocator` distinguishes -/
inductive Geo where
  | point (c : Option Pt)            -- `none`: POINT EMPTY
  | line (pts : List Pt)             -- LineString or LinearRing; `[]`: empty
  | poly (rings : List (List Pt))    -- shell :: holes; `[]` or an empty shell: POLYGON EMPTY
  | coll (elems : List Geo)
deriving Repr, Inhabited

/-- the members `isIn`, `numBoundaries` -/
structure Info where
  isIn : Bool
  numBoundaries : Nat
deriving Repr, DecidableEq

def Info.init : Info := ⟨false, 0⟩

/-- `PointLocator::updateLocationInfo` -/
def updateLocationInfo (st : Info) (loc : Loc) : Info :=
  let st := if loc = .interior then { st with isIn := true } else st
  if loc = .boundary then { st with numBoundaries := st.numBoundaries + 1 } else st

/-- `PointLocator::locate(p, const Point*)` -/
def locatePoint (p : Pt) (c : Option Pt) : Loc :=
  match c with
  | some q => if q.x = p.x ∧ q.y = p.y then .interior else .exterior
  | none => .exterior

/-- `LineString::isClosed()`: not empty and first = last -/
def lineClosed (pts : List Pt) : Bool :=
  match pts.head?, pts.getLast? with
  | some a, some z => decide (a = z)
  | _, _ => false

/-- `PointLocator::locate(p, const LineString*)` -/
def locateLine (p : Pt) (pts : List Pt) : Loc :=
  if !envContains pts p then .exterior
  else if !lineClosed pts && (decide (pts.head? = some p) || decide (pts.getLast? = some p)) then .boundary
  else if isOnLine p pts then .interior
  else .exterior

/-- `PointLocation::isInRing(p, ring)` = `locateInRing(p, ring) != EXTERIOR` -/
def isInRing (p : Pt) (ring : List Pt) : Bool := decide (locatePointInRing p ring ≠ .exterior)

/-- `PointLocator::locateInPolygonRing` -/
def locateInPolygonRing (p : Pt) (ring : List Pt) : Loc :=
  if !envContains ring p then .exterior
  else if isOnLine p ring then .boundary
  else if isInRing p ring then .interior
  else .exterior

/-- the loop over the interior rings of `PointLocator::locate(p, const Polygon*)` -/
def holesLoop (p : Pt) : List (List Pt) → Loc
  | [] => .interior
  | h :: hs =>
    match locateInPolygonRing p h with
    | .interior => .exterior
    | .boundary => .boundary
    | .exterior => holesLoop p hs

/-- `PointLocator::locate(p, const Polygon*)` -/
def locatePolygon (p : Pt) : List (List Pt) → Loc
  | [] => .exterior
  | shell :: holes =>
    if shell.isEmpty then .exterior
    else
      match locateInPolygonRing p shell with
      | .exterior => .exterior
      | .boundary => .boundary
      | .interior => holesLoop p holes

mutual
/-- `Geometry::isEmpty()` -/
def isEmpty : Geo → Bool
  | .point c => c.isNone
  | .line pts => pts.isEmpty
  | .poly rings => match rings with | [] => true | shell :: _ => shell.isEmpty
  | .coll es => allEmpty es
def allEmpty : List Geo → Bool
  | [] => true
  | g :: gs => isEmpty g && allEmpty gs
end

mutual
/-- `PointLocator::computeLocation(p, geom)` threading the members -/
def computeLocation (p : Pt) : Geo → Info → Info
  | .point c, st => if c.isNone then st else updateLocationInfo st (locatePoint p c)
  | .line pts, st => if pts.isEmpty then st else updateLocationInfo st (locateLine p pts)
  | .poly rings, st => if isEmpty (.poly rings) then st else updateLocationInfo st (locatePolygon p rings)
  | .coll es, st => if allEmpty es then st else computeList p es st
def computeList (p : Pt) : List Geo → Info → Info
  | [], st => st
  | g :: gs, st => computeList p gs (computeLocation p g st)
end

/-- `PointLocator::locate(p, const Geometry*)`; `isRing`: the top-level geometry is a LinearRing (type id
`GEOS_LINEARRING`, which does not take the LineString shortcut) -/
def locate (p : Pt) (g : Geo) (isRing : Bool := false) : Loc :=
  if isEmpty g then .exterior else
  match g, isRing with
  | .line pts, false => locateLine p pts
  | .poly rings, _ => locatePolygon p rings
  | g, _ =>
    let st := computeLocation p g Info.init
    if st.numBoundaries % 2 == 1 then .boundary
    else if st.numBoundaries > 0 || st.isIn then .interior
    else .exterior

/-- `PointLocator::intersects(p, geom)` -/
def intersects (p : Pt) (g : Geo) : Bool := decide (locate p g ≠ .exterior)

/-- the two tests of `locateInPolygonRing` in the other order (ray crossing first): kept to state why the order matters -/
def locateInPolygonRingSwapped (p : Pt) (ring : List Pt) : Loc :=
  if !envContains ring p then .exterior
  else if isInRing p ring then .interior
  else if isOnLine p ring then .boundary
  else .exterior

end GeosModel.PointLocator

namespace GeosModel.PointLocator
open GeosModel.Kernel

mutual
/-- the locations of the non-empty atomic elements of a geometry, in the order `computeLocation` visits them -/
def leafLocs (p : Pt) : Geo → List Loc
  | .point c => if c.isNone then [] else [locatePoint p c]
  | .line pts => if pts.isEmpty then [] else [locateLine p pts]
  | .poly rings => if isEmpty (.poly rings) then [] else [locatePolygon p rings]
  | .coll es => leafLocsList p es
def leafLocsList (p : Pt) : List Geo → List Loc
  | [] => []
  | g :: gs => leafLocs p g ++ leafLocsList p gs
end

end GeosModel.PointLocator
