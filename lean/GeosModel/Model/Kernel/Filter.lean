import GeosModel.Base.Kernel
/-!
# C07 — the floating-point orientation filter and the double-double fallback, as executable models

A finite binary64 value is a dyadic rational `m * 2^e`.  `Dy` holds such values exactly (unbounded
mantissa and exponent), `Dy.add/mul/neg/abs` are the exact operations, and `roundNE` rounds an exact
value to 53 significant bits with ties-to-even — IEEE-754 round-to-nearest-even *in the absence of
overflow and underflow* (the exponent range is unbounded here; the harness keeps every intermediate
inside the binary64 range, which is what makes the hardware and this model agree bit for bit).
There is no signed zero: zero is the single value `⟨0, 0⟩` (`Dy.mk'` canonicalises); none of the code
modelled here can observe the sign of a zero.

`orientationIndexFilter`, `DD.selfAdd`, `DD.selfMultiply`, `orientationIndex` follow
`CGAlgorithmsDD.h`, `DD.cpp`, `CGAlgorithmsDD.cpp` statement by statement; every C++ `double`
operation is `rnd (exact operation)`, with the rounding function a parameter:
`rnd = roundNE` is the machine, `rnd = id` is exact arithmetic.  Core Lean only.
-/
namespace GeosModel.Filter
open GeosModel.Kernel

/-- dyadic rational `m * 2^e` -/
structure Dy where
  m : Int
  e : Int
deriving DecidableEq, Repr, Inhabited

namespace Dy

def zero : Dy := ⟨0, 0⟩

/-- smart constructor: a single representation of zero -/
def mk' (m e : Int) : Dy := if m = 0 then zero else ⟨m, e⟩

def neg (a : Dy) : Dy := ⟨-a.m, a.e⟩

def abs (a : Dy) : Dy := ⟨(a.m.natAbs : Int), a.e⟩

/-- exact sum (a zero result or a zero operand never leaks a non-canonical zero) -/
def add (a b : Dy) : Dy :=
  if a.m = 0 then mk' b.m b.e
  else if b.m = 0 then a
  else
    let e := min a.e b.e
    mk' (a.m * 2 ^ (a.e - e).toNat + b.m * 2 ^ (b.e - e).toNat) e

def sub (a b : Dy) : Dy := add a (neg b)

/-- exact product -/
def mul (a b : Dy) : Dy := mk' (a.m * b.m) (a.e + b.e)

/-- sign of the value: -1, 0, 1 -/
def sgn (a : Dy) : Int := a.m.sign

def isZero (a : Dy) : Bool := a.m == 0
def isPos (a : Dy) : Bool := decide (0 < a.m)
def isNeg (a : Dy) : Bool := decide (a.m < 0)

/-- `a ≥ b` on values -/
def ge (a b : Dy) : Bool := decide (0 ≤ (sub a b).m)
def lt (a b : Dy) : Bool := decide ((sub a b).m < 0)
def gt (a b : Dy) : Bool := decide (0 < (sub a b).m)
def eqv (a b : Dy) : Bool := (sub a b).m == 0

end Dy

/-- round a natural mantissa to at most 53 significant bits, ties to even:
returns `(q, k)` with `n ≈ q * 2^k`, `q ≤ 2^53` -/
def roundNat (n : Nat) : Nat × Nat :=
  if n ≤ 2 ^ 53 then (n, 0)
  else
    let k := Nat.log2 n + 1 - 53
    let q := n / 2 ^ k
    let r := n % 2 ^ k
    let half := 2 ^ (k - 1)
    let q' := if half < r ∨ (r = half ∧ q % 2 = 1) then q + 1 else q
    (q', k)

/-- round-to-nearest-even to binary64 precision (unbounded exponent range) -/
def roundNE (a : Dy) : Dy :=
  let qk := roundNat a.m.natAbs
  Dy.mk' (if a.m < 0 then -(qk.1 : Int) else (qk.1 : Int)) (a.e + (qk.2 : Int))

/-! ### the filter -/

/-- `CGAlgorithmsDD::FAILURE` -/
def FAILURE : Int := 2

/-- the binary64 value of the literal `3.3306690621773724e-16` (bits `3cb7fffffe95f620`) -/
def errCoef : Dy := ⟨211106231791537, -99⟩

section
variable (rnd : Dy → Dy)

def fadd (a b : Dy) : Dy := rnd (Dy.add a b)
def fsub (a b : Dy) : Dy := rnd (Dy.sub a b)
def fmul (a b : Dy) : Dy := rnd (Dy.mul a b)

/-- the intermediates of `orientationIndexFilter` -/
structure Trace where
  detleft : Dy
  detright : Dy
  det : Dy
  detsum : Dy
  error : Dy
deriving Repr

def filterTrace (coef : Dy) (pax pay pbx pby pcx pcy : Dy) : Trace :=
  let detleft := fmul rnd (fsub rnd pax pcx) (fsub rnd pby pcy)
  let detright := fmul rnd (fsub rnd pay pcy) (fsub rnd pbx pcx)
  let det := fsub rnd detleft detright
  let detsum := fadd rnd detleft detright
  let error := fmul rnd (Dy.abs detsum) coef
  ⟨detleft, detright, det, detsum, error⟩

/-- `(det > 0) - (det < 0)` -/
def signIdx (d : Dy) : Int := (if 0 < d.m then 1 else 0) - (if d.m < 0 then 1 else 0)

/-- `CGAlgorithmsDD::orientationIndexFilter` with the error coefficient as a parameter
(`errCoef` in the source) -/
def orientationIndexFilterC (coef : Dy) (pax pay pbx pby pcx pcy : Dy) : Int :=
  let t := filterTrace rnd coef pax pay pbx pby pcx pcy
  if Dy.ge (Dy.abs t.det) t.error then signIdx t.det else FAILURE

def orientationIndexFilter (pax pay pbx pby pcx pcy : Dy) : Int :=
  orientationIndexFilterC rnd errCoef pax pay pbx pby pcx pcy

/-! ### double-double (`geos::math::DD`) -/

structure DD where
  hi : Dy
  lo : Dy
deriving Repr, DecidableEq

def DD.ofD (x : Dy) : DD := ⟨x, Dy.zero⟩

/-- `DD::SPLIT = 134217729.0 = 2^27 + 1` -/
def SPLIT : Dy := ⟨134217729, 0⟩

/-- `DD::selfAdd(double yhi, double ylo)` -/
def DD.selfAdd (x : DD) (yhi ylo : Dy) : DD :=
  let hi := x.hi
  let lo := x.lo
  let S := fadd rnd hi yhi
  let T := fadd rnd lo ylo
  let e := fsub rnd S hi
  let f := fsub rnd T lo
  let s := fsub rnd S e
  let t := fsub rnd T f
  let s := fadd rnd (fsub rnd yhi e) (fsub rnd hi s)
  let t := fadd rnd (fsub rnd ylo f) (fsub rnd lo t)
  let e := fadd rnd s T
  let H := fadd rnd S e
  let h := fadd rnd e (fsub rnd S H)
  let e := fadd rnd t h
  let zhi := fadd rnd H e
  let zlo := fadd rnd e (fsub rnd H zhi)
  ⟨zhi, zlo⟩

/-- `operator+(DD, DD)` -/
def DD.add (x y : DD) : DD := DD.selfAdd rnd x y.hi y.lo

/-- the `double` value of the `int` literal `-1` in `-1*d.hi` -/
def negOne : Dy := ⟨-1, 0⟩

/-- `operator-(DD, DD)` = `DD::selfSubtract(const DD&)`: `selfAdd(-1*d.hi, -1*d.lo)` — two `double`
multiplications by `-1.0` (exact on every representable operand, see `fmul_negOne` in Proofs/Kernel/DDGrid) -/
def DD.sub (x y : DD) : DD := DD.selfAdd rnd x (fmul rnd negOne y.hi) (fmul rnd negOne y.lo)

/-- `DD::selfMultiply(double yhi, double ylo)` -/
def DD.selfMultiply (x : DD) (yhi ylo : Dy) : DD :=
  let hi := x.hi
  let lo := x.lo
  let C := fmul rnd SPLIT hi
  let hx := fsub rnd C hi
  let c := fmul rnd SPLIT yhi
  let hx := fsub rnd C hx
  let tx := fsub rnd hi hx
  let hy := fsub rnd c yhi
  let C := fmul rnd hi yhi
  let hy := fsub rnd c hy
  let ty := fsub rnd yhi hy
  let c := fadd rnd
    (fadd rnd (fadd rnd (fadd rnd (fsub rnd (fmul rnd hx hy) C) (fmul rnd hx ty)) (fmul rnd tx hy)) (fmul rnd tx ty))
    (fadd rnd (fmul rnd hi ylo) (fmul rnd lo yhi))
  let zhi := fadd rnd C c
  let hx := fsub rnd C zhi
  let zlo := fadd rnd c hx
  ⟨zhi, zlo⟩

def DD.mul (x y : DD) : DD := DD.selfMultiply rnd x y.hi y.lo

/-- `OrientationDD`: `dd < 0 → RIGHT`, `dd > 0 → LEFT`, else `STRAIGHT`
(`DD::operator<` compares `hi` first, then `lo`) -/
def orientationDD (d : DD) : Int :=
  if d.hi.isNeg || (d.hi.isZero && d.lo.isNeg) then -1
  else if d.hi.isPos || (d.hi.isZero && d.lo.isPos) then 1
  else 0

/-- the DD part of `CGAlgorithmsDD::orientationIndex` -/
def orientationIndexDD (p1x p1y p2x p2y qx qy : Dy) : Int :=
  let dx1 := DD.add rnd (DD.ofD p2x) (DD.ofD (Dy.neg p1x))
  let dy1 := DD.add rnd (DD.ofD p2y) (DD.ofD (Dy.neg p1y))
  let dx2 := DD.add rnd (DD.ofD qx) (DD.ofD (Dy.neg p2x))
  let dy2 := DD.add rnd (DD.ofD qy) (DD.ofD (Dy.neg p2y))
  let mx1y2 := DD.mul rnd dx1 dy2
  let my1x2 := DD.mul rnd dy1 dx2
  let d := DD.sub rnd mx1y2 my1x2
  orientationDD d

/-- `CGAlgorithmsDD::orientationIndex(p1x, p1y, p2x, p2y, qx, qy)` for finite arguments:
the filter answers when it can, otherwise the DD evaluation decides -/
def orientationIndex (p1x p1y p2x p2y qx qy : Dy) : Int :=
  let index := orientationIndexFilter rnd p1x p1y p2x p2y qx qy
  if index ≤ 1 then index else orientationIndexDD rnd p1x p1y p2x p2y qx qy

end

/-! ### grid inputs -/

/-- the double `n * 2^k` -/
def ofGrid (k : Int) (n : Int) : Dy := Dy.mk' n k

/-- the property's grid hypothesis: every coordinate at most `2^25` units -/
def OnGrid (bound : Nat) (p : Pt) : Prop := p.x.natAbs ≤ bound ∧ p.y.natAbs ≤ bound

instance (bound : Nat) (p : Pt) : Decidable (OnGrid bound p) := by unfold OnGrid; exact inferInstance

def gridBound : Nat := 2 ^ 25

/-- the filter run on three grid points with unit `2^k` -/
def filterGrid (rnd : Dy → Dy) (coef : Dy) (k : Int) (a b c : Pt) : Int :=
  orientationIndexFilterC rnd coef (ofGrid k a.x) (ofGrid k a.y) (ofGrid k b.x) (ofGrid k b.y)
    (ofGrid k c.x) (ofGrid k c.y)

/-- the exact-`Int` shadow of the filter on the grid: the three determinant terms are computed in `Int`;
only the error bound is a rounded product -/
def filterShadow (rnd : Dy → Dy) (coef : Dy) (k : Int) (a b c : Pt) : Int :=
  let dl := (a.x - c.x) * (b.y - c.y)
  let dr := (a.y - c.y) * (b.x - c.x)
  let det := dl - dr
  let err := rnd (Dy.mul (Dy.abs (Dy.mk' (dl + dr) (k + k))) coef)
  if Dy.ge (Dy.abs (Dy.mk' det (k + k))) err then det.sign else FAILURE

/-- the full orientation index on three grid points with unit `2^k` -/
def orientationIndexGrid (rnd : Dy → Dy) (k : Int) (a b c : Pt) : Int :=
  orientationIndex rnd (ofGrid k a.x) (ofGrid k a.y) (ofGrid k b.x) (ofGrid k b.y) (ofGrid k c.x) (ofGrid k c.y)

end GeosModel.Filter
