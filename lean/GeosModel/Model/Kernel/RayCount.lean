import GeosModel.Base.Kernel
/-!
# C07 — `RayCrossingCounter::countSegment` / `locatePointInRing`, ported over `Int` points

The C++ tests are followed literally and in the same order: strictly-left reject, equality with the
segment's *second* vertex, the horizontal-segment case, the half-open straddle rule, the orientation
sign with the direction flip.  The orientation index is the exact one (`Kernel.orient`); that the C++
index is exact on the grid is the other half of C07.  Core Lean only.
-/
namespace GeosModel.RayCount
open GeosModel.Kernel

/-- the two fields of `RayCrossingCounter` -/
structure RCC where
  onSeg : Bool     -- isPointOnSegment
  count : Nat      -- crossingCount
deriving Repr, DecidableEq

def RCC.init : RCC := ⟨false, 0⟩

/-- `RayCrossingCounter::countSegment(p1, p2)` for the test point `p` -/
def countSegment (p : Pt) (st : RCC) (p1 p2 : Pt) : RCC :=
  -- check if the segment is strictly to the left of the test point
  if p1.x < p.x ∧ p2.x < p.x then st
  -- check if the point is equal to the current ring vertex
  else if p.x = p2.x ∧ p.y = p2.y then { st with onSeg := true }
  -- horizontal segments: only an on-segment test
  else if p1.y = p.y ∧ p2.y = p.y then
    let minx := if p1.x > p2.x then p2.x else p1.x
    let maxx := if p1.x > p2.x then p1.x else p2.x
    if p.x ≥ minx ∧ p.x ≤ maxx then { st with onSeg := true } else st
  -- half-open rule
  else if (p1.y > p.y ∧ p2.y ≤ p.y) ∨ (p2.y > p.y ∧ p1.y ≤ p.y) then
    let sign := orient p1 p2 p
    if sign = 0 then { st with onSeg := true }
    else
      let sign := if p2.y < p1.y then -sign else sign
      if sign > 0 then { st with count := st.count + 1 } else st
  else st

/-- the loop of `locatePointInRing`: stops at the first segment that reports on-segment -/
def locLoop (p : Pt) : RCC → List Pt → RCC
  | st, a :: b :: r =>
    let st' := countSegment p st a b
    if st'.onSeg then st' else locLoop p st' (b :: r)
  | st, _ => st

/-- `RayCrossingCounter::getLocation` -/
def getLocation (st : RCC) : Loc :=
  if st.onSeg then .boundary
  else if st.count % 2 == 1 then .interior else .exterior

/-- `RayCrossingCounter::locatePointInRing(point, ring)` = `PointLocation::locateInRing` -/
def locatePointInRing (p : Pt) (ring : List Pt) : Loc :=
  getLocation (locLoop p RCC.init ring)

/-- `Envelope::intersects(p1, p2, q)` — the point `q` lies in the box spanned by `p1`, `p2` -/
def envIntersectsPt (p1 p2 q : Pt) : Bool :=
  decide (q.x ≥ (if p1.x < p2.x then p1.x else p2.x)) && decide (q.x ≤ (if p1.x > p2.x then p1.x else p2.x)) &&
  decide (q.y ≥ (if p1.y < p2.y then p1.y else p2.y)) && decide (q.y ≤ (if p1.y > p2.y then p1.y else p2.y))

/-- `PointLocation::isOnSegment(p, p0, p1)` -/
def isOnSegment (p p0 p1 : Pt) : Bool :=
  if !envIntersectsPt p0 p1 p then false
  else if p == p0 then true
  else orient p0 p1 p == 0

/-- `PointLocation::isOnLine(p, line)` -/
def isOnLine (p : Pt) : List Pt → Bool
  | a :: b :: r => isOnSegment p a b || isOnLine p (b :: r)
  | _ => false

/-- a closed ring: first vertex = last vertex -/
def Closed (ring : List Pt) : Prop := ring.head? = ring.getLast?

instance (ring : List Pt) : Decidable (Closed ring) := by unfold Closed; exact inferInstance

end GeosModel.RayCount
