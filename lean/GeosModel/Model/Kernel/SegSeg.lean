import GeosModel.Base.Kernel
/-!
# C07 — `LineIntersector::computeIntersect`, ported over `Int` points

Branch by branch after `include/geos/algorithm/LineIntersector.h`: envelope reject, the two pairs of
orientation tests, the collinear branch (`computeCollinearIntersection`, six cases on
endpoint-in-envelope flags), the endpoint branch with its explicit equal-endpoint copies, and the
proper branch whose point is the exact rational solution of `CGAlgorithmsDD::intersection`
(numerators and common denominator as `Int`s; the C++ evaluates the same formulas in double-double
and rounds).  The orientation index is `Kernel.orient`.  Core Lean only.
-/
namespace GeosModel.SegSeg
open GeosModel.Kernel

/-- `Envelope::intersects(p1, p2, q)` -/
def envPt (p1 p2 q : Pt) : Bool :=
  decide (q.x ≥ (if p1.x < p2.x then p1.x else p2.x)) && decide (q.x ≤ (if p1.x > p2.x then p1.x else p2.x)) &&
  decide (q.y ≥ (if p1.y < p2.y then p1.y else p2.y)) && decide (q.y ≤ (if p1.y > p2.y then p1.y else p2.y))

/-- `Envelope::intersects(p1, p2, q1, q2)` -/
def envIntersects (p1 p2 q1 q2 : Pt) : Bool :=
  let minq := min q1.x q2.x
  let maxq := max q1.x q2.x
  let minp := min p1.x p2.x
  let maxp := max p1.x p2.x
  if minp > maxq then false
  else if maxp < minq then false
  else
    let minq := min q1.y q2.y
    let maxq := max q1.y q2.y
    let minp := min p1.y p2.y
    let maxp := max p1.y p2.y
    if minp > maxq then false
    else if maxp < minq then false
    else true

/-- exact rational point `(x / w, y / w)` -/
structure RatPt where
  x : Int
  y : Int
  w : Int
deriving Repr, DecidableEq

/-- the observable state of a `LineIntersector` after `computeIntersection` -/
structure LI where
  code : Nat              -- 0 NO_INTERSECTION, 1 POINT_INTERSECTION, 2 COLLINEAR_INTERSECTION
  proper : Bool           -- isProperVar
  pts : List Pt           -- intPt[0 .. ] when they are copies of input endpoints
  rat : Option RatPt      -- the proper intersection point (exact), `none` otherwise
deriving Repr, DecidableEq

def LI.none : LI := ⟨0, false, [], Option.none⟩

/-- `CGAlgorithmsDD::intersection`: homogeneous line intersection, same formulas, exact -/
def intersectionRat (p1 p2 q1 q2 : Pt) : RatPt :=
  let px := p1.y - p2.y
  let py := p2.x - p1.x
  let pw := p1.x * p2.y - p2.x * p1.y
  let qx := q1.y - q2.y
  let qy := q2.x - q1.x
  let qw := q1.x * q2.y - q2.x * q1.y
  let x := py * qw - qy * pw
  let y := qx * pw - px * qw
  let w := px * qy - qx * py
  ⟨x, y, w⟩

/-- `LineIntersector::computeCollinearIntersection` -/
def computeCollinearIntersection (p1 p2 q1 q2 : Pt) : LI :=
  let q1inP := envPt p1 p2 q1
  let q2inP := envPt p1 p2 q2
  let p1inQ := envPt q1 q2 p1
  let p2inQ := envPt q1 q2 p2
  if q1inP && q2inP then ⟨2, false, [q1, q2], Option.none⟩
  else if p1inQ && p2inQ then ⟨2, false, [p1, p2], Option.none⟩
  else if q1inP && p1inQ then
    ⟨if q1 = p1 ∧ !q2inP ∧ !p2inQ then 1 else 2, false, [q1, p1], Option.none⟩
  else if q1inP && p2inQ then
    ⟨if q1 = p2 ∧ !q2inP ∧ !p1inQ then 1 else 2, false, [q1, p2], Option.none⟩
  else if q2inP && p1inQ then
    ⟨if q2 = p1 ∧ !q1inP ∧ !p2inQ then 1 else 2, false, [q2, p1], Option.none⟩
  else if q2inP && p2inQ then
    ⟨if q2 = p2 ∧ !q1inP ∧ !p1inQ then 1 else 2, false, [q2, p2], Option.none⟩
  else LI.none

/-- `LineIntersector::computeIntersect(p1, p2, q1, q2)` -/
def computeIntersect (p1 p2 q1 q2 : Pt) : LI :=
  if !envIntersects p1 p2 q1 q2 then LI.none
  else
    let Pq1 := orient p1 p2 q1
    let Pq2 := orient p1 p2 q2
    if (Pq1 > 0 ∧ Pq2 > 0) ∨ (Pq1 < 0 ∧ Pq2 < 0) then LI.none
    else
      let Qp1 := orient q1 q2 p1
      let Qp2 := orient q1 q2 p2
      if (Qp1 > 0 ∧ Qp2 > 0) ∨ (Qp1 < 0 ∧ Qp2 < 0) then LI.none
      else if Pq1 = 0 ∧ Pq2 = 0 ∧ Qp1 = 0 ∧ Qp2 = 0 then computeCollinearIntersection p1 p2 q1 q2
      else if Pq1 = 0 ∨ Pq2 = 0 ∨ Qp1 = 0 ∨ Qp2 = 0 then
        let p :=
          if p1 = q1 then p1
          else if p1 = q2 then p1
          else if p2 = q1 then p2
          else if p2 = q2 then p2
          else if Pq1 = 0 then q1
          else if Pq2 = 0 then q2
          else if Qp1 = 0 then p1
          else p2
        ⟨1, false, [p], Option.none⟩
      else ⟨1, true, [], some (intersectionRat p1 p2 q1 q2)⟩

/-- the first `code` intersection points (the C++ `intPt[0 .. result)`) -/
def LI.reported (r : LI) : List Pt := r.pts.take r.code

/-- what the result *means*: a collinear result whose two points coincide is a single point -/
def LI.classify (r : LI) : SegRel :=
  match r.code with
  | 0 => .disjoint
  | 1 => .point r.proper
  | _ => match r.pts with
    | [a, b] => if a = b then .point false else .overlap
    | _ => .overlap

/-- the raw result code as a `SegRel` -/
def LI.rawClass (r : LI) : SegRel :=
  match r.code with
  | 0 => .disjoint
  | 1 => .point r.proper
  | _ => .overlap

/-- the rational point lies in the closed bounding box of (a, b) -/
def RatPt.inBox (r : RatPt) (a b : Pt) : Bool :=
  let s := r.w.sign
  decide (min a.x b.x * r.w * s ≤ r.x * s) && decide (r.x * s ≤ max a.x b.x * r.w * s) &&
  decide (min a.y b.y * r.w * s ≤ r.y * s) && decide (r.y * s ≤ max a.y b.y * r.w * s)

/-- the rational point lies on the line through a and b -/
def RatPt.onLine (r : RatPt) (a b : Pt) : Bool :=
  (b.x - a.x) * (r.y - a.y * r.w) - (b.y - a.y) * (r.x - a.x * r.w) == 0

end GeosModel.SegSeg
