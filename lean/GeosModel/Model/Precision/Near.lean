import GeosModel.Model.Relate.Ref
/-!
# "Equal to the exact result outside a band" — exact sampling oracle (SPEC side of C04)

All coordinates are integers in one common power-of-two unit (inputs, result and the grid size are doubles, hence
dyadic rationals).  A sample is a homogeneous point `HPt`.  It is *far* when its distance to every segment and
isolated point of the inputs exceeds the band (compared exactly, squared).  A far sample lies on no input
boundary, so its membership in an input is plain point-in-polygon (even–odd per polygon, union over polygons),
and the exact floating-precision result of an overlay contains it iff the Boolean combination of the two
memberships says so.  The fixed-precision result must classify it identically.
Core Lean only; reuses `inPolyH`, `detH` of Model/Relate/Ref.lean.
-/
namespace GeosModel.Precision
open GeosModel.Kernel GeosModel.Relate

/-- Boolean set operation of an overlay on memberships -/
inductive SetOp where
  | inter | union | diff | symdiff | first
deriving DecidableEq, Repr

def SetOp.eval : SetOp → Bool → Bool → Bool
  | .inter, a, b => a && b
  | .union, a, b => a || b
  | .diff, a, b => a && !b
  | .symdiff, a, b => a != b
  | .first, a, _ => a

/-- is the squared distance from `x` to the closed segment `(a,b)` strictly larger than `r2` (`= r²`)? exact. -/
def farFromSeg (r2 : Int) (a b : Pt) (x : HPt) : Bool :=
  let dx := b.x - a.x; let dy := b.y - a.y
  let vx := x.x - a.x * x.w; let vy := x.y - a.y * x.w       -- (X − a)·w
  let len2 := dx * dx + dy * dy
  let tn := vx * dx + vy * dy                                  -- t · len2 · w
  let w2 := x.w * x.w
  if len2 = 0 || tn ≤ 0 then decide (r2 * w2 < vx * vx + vy * vy)
  else if len2 * x.w ≤ tn then
    let ux := x.x - b.x * x.w; let uy := x.y - b.y * x.w
    decide (r2 * w2 < ux * ux + uy * uy)
  else
    let d := dx * vy - dy * vx                                 -- det · w
    decide (r2 * w2 * len2 < d * d)

/-- every segment (also degenerate ones) and isolated point of a flattened geometry -/
def allSegs (f : Flat) : List (Pt × Pt) :=
  f.pts.map (fun p => (p, p)) ++ f.lines.flatMap edges ++ f.polys.flatMap (fun p => p.flatMap edges) ++
  (f.lines.filterMap fun l => match l with | [p] => some (p, p) | _ => none)

def farFrom (r2 : Int) (segs : List (Pt × Pt)) (x : HPt) : Bool := segs.all fun s => farFromSeg r2 s.1 s.2 x

/-- membership of a far sample: inside some polygon -/
def inArea (f : Flat) (x : HPt) : Bool := f.polys.any (inPolyH x)

/-- does `x` lie on a ring segment of `f` ? (only used to make sure result samples are off the result boundary) -/
def onRings (f : Flat) (x : HPt) : Bool := f.polys.any fun p => (p.flatMap edges).any fun e => onSegH e.1 e.2 x

def vertsOf (f : Flat) : List Pt := f.pts ++ f.lines.flatten ++ f.polys.flatten.flatten

def dedupSorted : List Int → List Int
  | a :: b :: r => if a = b then dedupSorted (b :: r) else a :: dedupSorted (b :: r)
  | l => l

/-- at most `k` entries of `l`, evenly spread -/
def thin (k : Nat) (l : List Int) : List Int :=
  if l.length ≤ k then l else
    let n := l.length
    (List.range k).filterMap fun i => l[i * n / k]?

/-- doubled mid-values between consecutive distinct ordinates, plus one beyond each end (`margin` doubled) -/
def midValues2 (vals : List Int) (margin : Int) : List Int :=
  let s := dedupSorted (vals.mergeSort (· ≤ ·))
  match s with
  | [] => []
  | a :: _ =>
    let last := s.getLast?.getD a
    (2 * a - margin) :: ((s.zip s.tail).map fun (u, v) => u + v) ++ [2 * last + margin]

/-- lattice of samples (w = 2) between the distinct vertex ordinates of all three geometries -/
def latticeSamples (k : Nat) (fs : List Flat) (margin : Int) : List HPt :=
  let vs := fs.flatMap vertsOf
  let xs := thin k (midValues2 (vs.map (·.x)) margin)
  let ys := thin k (midValues2 (vs.map (·.y)) margin)
  xs.flatMap fun x => ys.map fun y => ⟨x, y, 2⟩

/-- centroids (w = 3) of consecutive vertex triples of every ring: samples just inside / outside corners -/
def cornerSamples (f : Flat) : List HPt :=
  f.polys.flatMap fun p => p.flatMap fun ring =>
    match ring with
    | _ :: b :: r => ((ring.zip (b :: r)).zip (r ++ [b])).map fun ((u, v), t) => ⟨u.x + v.x + t.x, u.y + v.y + t.y, 3⟩
    | _ => []

/-- vertices and segment midpoints (w = 2) of a geometry -/
def skeletonSamples (f : Flat) : List HPt :=
  (vertsOf f).map (fun p => ⟨2 * p.x, 2 * p.y, 2⟩) ++
  ((f.lines.flatMap edges ++ f.polys.flatMap (fun p => p.flatMap edges)).map fun e => ⟨e.1.x + e.2.x, e.1.y + e.2.y, 2⟩)

structure NearReport where
  far : Nat := 0          -- far samples classified
  inside : Nat := 0       -- of which inside the expected result
  bad : Option (HPt × Bool × Bool) := none     -- first misclassified sample, (expected, got)
  strayed : Option HPt := none                 -- a vertex / segment midpoint of the result far from every input
deriving Repr

/-- compare result `R` with `op(A, B)` on all samples farther than `√r2` from the inputs -/
def nearCheck (op : SetOp) (A B R : Flat) (r2 : Int) (k : Nat) (margin : Int) : NearReport :=
  let segs := allSegs A ++ allSegs B
  let samples := latticeSamples k [A, B, R] margin ++ cornerSamples A ++ cornerSamples B ++ cornerSamples R
  let rep := samples.foldl (fun (rep : NearReport) x =>
    if !farFrom r2 segs x then rep else
      let e := op.eval (inArea A x) (inArea B x)
      let g := inArea R x
      let rep := { rep with far := rep.far + 1, inside := rep.inside + (if e then 1 else 0) }
      if e != g && rep.bad.isNone && !onRings R x then { rep with bad := some (x, e, g) } else rep) {}
  let stray := (skeletonSamples R).find? fun x => farFrom r2 segs x
  { rep with strayed := stray }

/-! ### light exact validity of the result's rings -/

/-- drop a point equal to its predecessor (repeated points are legal in a valid ring) -/
def dropRepeated : List Pt → List Pt
  | a :: b :: r => if a == b then dropRepeated (b :: r) else a :: dropRepeated (b :: r)
  | l => l

/-- closed, and at least 4 points once repeated points are dropped -/
def ringShapeOK (r : List Pt) : Bool :=
  decide (4 ≤ (dropRepeated r).length) && (r.head? == r.getLast?)

/-- no two (non-degenerate) segments of the polygon's rings cross properly or overlap collinearly -/
def ringsNoCross (p : List (List Pt)) : Bool :=
  let es := (p.flatMap fun r => edges (dropRepeated r)).filter fun e => e.1 != e.2
  let rec go : List (Pt × Pt) → Bool
    | [] => true
    | e :: r => (r.all fun f => match segRel e.1 e.2 f.1 f.2 with
        | .point true => false
        | .overlap => false
        | _ => true) && go r
  go es

def lightValid (f : Flat) : Bool := f.polys.all fun p => p.all ringShapeOK && ringsNoCross p

end GeosModel.Precision
