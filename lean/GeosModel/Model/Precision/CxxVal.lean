import GeosModel.Base.Cxx
import GeosModel.Model.Precision.Round
/-!
# The binary64 model `F64.Val` as a carrier of regenerated C++ code

`translate/cxx2lean.py` turns a C++ `double` into an abstract carrier `R` with the operations of `GeosModel.Cxx`.
Here the carrier is the value model of `Model/Precision/Round.lean`: every operator is the IEEE-754 operation of that
file (`mulF divF addF subF` = `roundNE` of the exact result plus the special-value table, `vLt vFeq` = the IEEE
comparisons); an integer literal is its nearest double, a decimal literal `m × 10^e` the nearest double of that rational
(what the C++ compiler does with the literal).  With this instance the regenerated `PrecisionModel::makePrecise`,
`setScale`, `snapToInt` can be compared with `PM.makePrecise`, `PM.setScale`, `snapToInt` (Props/C04GenRound.lean).
Core Lean only.
-/
namespace GeosModel.Precision
open GeosModel.F64 (Val)

instance : Cxx.Field Val where
  lt := vLt
  le := vLe
  eq := vFeq
  add := addF
  sub := subF
  mul := mulF
  neg := vNegate
  abs := vFabs
  ofInt i := ofInt false i
  div := divF
  ofDec m e := roundNE false ((m : Rat) * Cxx.pow10 e)

end GeosModel.Precision
