import GeosModel.Base.GTree
import GeosModel.Model.Precision.Round
/-!
# Precision reduction on geometry trees

* `pointwise pm g` — `GEOS_PREC_NO_TOPO` / `PointwisePrecisionReducerTransformer`: every coordinate gets
  `pm.makePrecise` applied to X and Y (`PrecisionModel::makePrecise(CoordinateXY&)`), nothing else changes.
  (`GeometryTransformer` additionally prunes *empty* elements of Multi*/collections and re-wraps single survivors;
  the driver therefore compares the sequence of non-empty leaves, `leavesG`.)
* `reduceLineSeq keep pm s` — the default / `GEOS_PREC_KEEP_COLLAPSED` treatment of a LineString's coordinates in
  `PrecisionReducerTransformer::transformCoordinates`: round, drop a point 2D-equal to the previously *kept* point,
  and if fewer than 2 points remain either remove the line (default) or pad it with copies of its last point (keep).
Core Lean only.
-/
namespace GeosModel.Precision
open GeosModel

def mapCS (f : Coord → Coord) (s : CSeq) : CSeq := { s with pts := s.pts.map f }

mutual
  /-- apply `f` to every coordinate of a geometry tree, keeping the tree -/
  def mapCG (f : Coord → Coord) : G → G
    | .point s => .point (mapCS f s)
    | .lineString s => .lineString (mapCS f s)
    | .linearRing s => .linearRing (mapCS f s)
    | .circularString s => .circularString (mapCS f s)
    | .polygon sh hs => .polygon (mapCS f sh) (hs.map (mapCS f))
    | .compoundCurve gs => .compoundCurve (mapCGs f gs)
    | .curvePolygon gs => .curvePolygon (mapCGs f gs)
    | .multiPoint gs => .multiPoint (mapCGs f gs)
    | .multiLineString gs => .multiLineString (mapCGs f gs)
    | .multiPolygon gs => .multiPolygon (mapCGs f gs)
    | .multiCurve gs => .multiCurve (mapCGs f gs)
    | .multiSurface gs => .multiSurface (mapCGs f gs)
    | .collection gs => .collection (mapCGs f gs)
  def mapCGs (f : Coord → Coord) : List G → List G
    | [] => []
    | g :: gs => mapCG f g :: mapCGs f gs
end

mutual
  /-- all coordinates of a tree, in storage order -/
  def coordsG : G → List Coord
    | .point s | .lineString s | .linearRing s | .circularString s => s.pts
    | .polygon sh hs => sh.pts ++ (hs.map (·.pts)).flatten
    | .compoundCurve gs | .curvePolygon gs | .multiPoint gs | .multiLineString gs | .multiPolygon gs
    | .multiCurve gs | .multiSurface gs | .collection gs => coordsGs gs
  def coordsGs : List G → List Coord
    | [] => []
    | g :: gs => coordsG g ++ coordsGs gs
end

/-- `PrecisionModel::makePrecise(CoordinateXY&)`: X and Y are rounded, Z and M are left alone -/
def roundC (pm : PM) (c : Coord) : Coord := { c with x := pm.makePreciseBits c.x, y := pm.makePreciseBits c.y }

/-- pointwise precision reduction -/
def pointwise (pm : PM) (g : G) : G := mapCG (roundC pm) g

/-- the tree with every coordinate blanked: "the structure" -/
def skeleton (g : G) : G := mapCG (fun _ => ⟨0, 0, 0, 0⟩) g

/-- `CoordinateXY::equals2D`: IEEE equality of X and of Y -/
def eq2D (a b : Coord) : Bool :=
  vFeq (F64.decode a.x) (F64.decode b.x) && vFeq (F64.decode a.y) (F64.decode b.y)

/-- `PrecisionReducerFilter` with `removeRepeated = true`; `prev` is the last coordinate kept -/
def roundDedup (pm : PM) : Option Coord → List Coord → List Coord
  | _, [] => []
  | prev, c :: r =>
    let c' := roundC pm c
    match prev with
    | some p => if eq2D c' p then roundDedup pm prev r else c' :: roundDedup pm (some c') r
    | none => c' :: roundDedup pm (some c') r

/-- `PrecisionReducerTransformer::extend` -/
def extendTo (l : List Coord) (n : Nat) : List Coord :=
  match l.getLast? with
  | none => l
  | some e => l ++ List.replicate (n - l.length) e

/-- coordinates of a reduced LineString; `none` = the component is removed -/
def reduceLineSeq (keep : Bool) (pm : PM) (s : CSeq) : Option CSeq :=
  if s.pts.isEmpty then none else
  let r := roundDedup pm none s.pts
  if r.length < 2 then (if keep then some { s with pts := extendTo r 2 } else none)
  else some { s with pts := r }

/-- a non-empty leaf: kind 0 point, 1 line, 2 polygon ring (first ring of a polygon has `first = true`) -/
structure Leaf where
  kind : Nat
  first : Bool
  pts : List (UInt64 × UInt64)
deriving DecidableEq, Repr

def xyOf (s : CSeq) : List (UInt64 × UInt64) := s.pts.map fun c => (c.x, c.y)

mutual
  /-- the non-empty leaves of a tree in order (what `GeometryTransformer` keeps after pruning empties) -/
  def leavesG : G → List Leaf
    | .point s => if s.pts.isEmpty then [] else [⟨0, true, xyOf s⟩]
    | .lineString s | .linearRing s | .circularString s => if s.pts.isEmpty then [] else [⟨1, true, xyOf s⟩]
    | .polygon sh hs =>
      if sh.pts.isEmpty then [] else ⟨2, true, xyOf sh⟩ :: (hs.filter (!·.pts.isEmpty)).map fun h => ⟨2, false, xyOf h⟩
    | .compoundCurve gs | .curvePolygon gs | .multiPoint gs | .multiLineString gs | .multiPolygon gs
    | .multiCurve gs | .multiSurface gs | .collection gs => leavesGs gs
  def leavesGs : List G → List Leaf
    | [] => []
    | g :: gs => leavesG g ++ leavesGs gs
end

mutual
  /-- predicted non-polygonal leaves of the default (`keep = false`) / KEEP_COLLAPSED reduction -/
  def reduceLeavesG (keep : Bool) (pm : PM) : G → List Leaf
    | .point s => if s.pts.isEmpty then [] else [⟨0, true, xyOf (mapCS (roundC pm) s)⟩]
    | .lineString s =>
      match reduceLineSeq keep pm s with
      | some r => [⟨1, true, xyOf r⟩]
      | none => []
    | .multiPoint gs | .multiLineString gs | .multiPolygon gs | .collection gs => reduceLeavesGs keep pm gs
    | _ => []
  def reduceLeavesGs (keep : Bool) (pm : PM) : List G → List Leaf
    | [] => []
    | g :: gs => reduceLeavesG keep pm g ++ reduceLeavesGs keep pm gs
end

end GeosModel.Precision
