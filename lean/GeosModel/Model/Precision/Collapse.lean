/-!
# C04 — what a fixed-precision overlay does with an operand that collapses completely

The decision core, ported from `src/operation/overlayng/`:

* `OverlayNG::computeEdgeOverlay`   after noding, `inputGeom.setCollapsed(i, !nodingBuilder.hasEdgesFor(i))` for `i = 0, 1`
  — operand `i` is flagged *collapsed* exactly when none of **its own** edges survived snap rounding
* `InputGeometry::locatePointInArea(i, pt)`   EXTERIOR when operand `i` is flagged collapsed (or empty), otherwise the
  point-in-area locator of the *original* (un-rounded) operand `i`
* `OverlayLabeller::locateEdgeBothEnds` / `labelDisconnectedEdge`   an edge of the other operand that met no edge of
  operand `i` is INTERIOR to it iff both its end points are not EXTERIOR by `locatePointInArea`
* `OverlayNG::isResultOfOp`   which (loc0, loc1) pairs belong to the result of each operation
* `Edge::isCollapsed` on the two-point case, and the outcome of rounding a vertex chain: no edge survives iff every
  vertex of the chain rounds to one and the same grid point

Core Lean only.
-/
namespace GeosModel.Precision.Collapse

inductive Loc where
  | interior | boundary | exterior
deriving DecidableEq, Repr

/-- `OverlayNG::INTERSECTION = 1, UNION = 2, DIFFERENCE = 3, SYMDIFFERENCE = 4` -/
inductive Op where
  | intersection | union | difference | symdifference
deriving DecidableEq, Repr

/-- `OverlayNG::isResultOfOp(opCode, loc0, loc1)` -/
def isResultOfOp (op : Op) (loc0 loc1 : Loc) : Bool :=
  let loc0 := if loc0 = .boundary then .interior else loc0
  let loc1 := if loc1 = .boundary then .interior else loc1
  match op with
  | .intersection => decide (loc0 = .interior) && decide (loc1 = .interior)
  | .union => decide (loc0 = .interior) || decide (loc1 = .interior)
  | .difference => decide (loc0 = .interior) && decide (loc1 ≠ .interior)
  | .symdifference => (decide (loc0 = .interior) && decide (loc1 ≠ .interior)) ||
                      (decide (loc0 ≠ .interior) && decide (loc1 = .interior))

/-- the two `setCollapsed` calls of `OverlayNG::computeEdgeOverlay`: flag `i` is "no edge of operand `i` survived" -/
def collapsedFlags (hasEdgesFor : Fin 2 → Bool) : Fin 2 → Bool := fun i => !hasEdgesFor i

/-- the state of `InputGeometry` the labeller reads -/
structure Input (P : Type) where
  collapsed : Fin 2 → Bool
  empty : Fin 2 → Bool
  area : Fin 2 → Bool
  locator : Fin 2 → P → Loc          -- the point-in-area locator of the original operand

/-- `InputGeometry::locatePointInArea(geomIndex, pt)` -/
def locatePointInArea {P : Type} (inp : Input P) (i : Fin 2) (pt : P) : Loc :=
  if inp.collapsed i || inp.empty i then .exterior else inp.locator i pt

/-- `OverlayLabeller::locateEdgeBothEnds(geomIndex, edge)` -/
def locateEdgeBothEnds {P : Type} (inp : Input P) (i : Fin 2) (orig dest : P) : Loc :=
  let locOrig := locatePointInArea inp i orig
  let locDest := locatePointInArea inp i dest
  if locOrig ≠ .exterior ∧ locDest ≠ .exterior then .interior else .exterior

/-- `OverlayLabeller::labelDisconnectedEdge(edge, geomIndex)`: the location given to an edge for an operand none of whose
edges it met -/
def labelDisconnectedEdge {P : Type} (inp : Input P) (i : Fin 2) (orig dest : P) : Loc :=
  if !inp.area i then .exterior else locateEdgeBothEnds inp i orig dest

/-- the input state `computeEdgeOverlay` leaves behind -/
def inputAfterNoding {P : Type} (hasEdgesFor empty area : Fin 2 → Bool) (locator : Fin 2 → P → Loc) : Input P :=
  ⟨collapsedFlags hasEdgesFor, empty, area, locator⟩

/-! ### which chains keep an edge under rounding -/

/-- consecutive vertex pairs -/
def pairs {α : Type} : List α → List (α × α)
  | a :: b :: r => (a, b) :: pairs (b :: r)
  | _ => []

/-- some segment of the chain keeps two distinct end points after every vertex is moved by `rd`
(a two-point edge with equal end points is `Edge::isCollapsed`) -/
def keepsEdge {α β : Type} [DecidableEq β] (rd : α → β) (chain : List α) : Bool :=
  (pairs chain).any fun e => decide (rd e.1 ≠ rd e.2)

/-- every vertex of the chain is moved to the same place -/
def allSame {α β : Type} [DecidableEq β] (rd : α → β) : List α → Bool
  | [] => true
  | a :: r => r.all fun v => decide (rd v = rd a)

end GeosModel.Precision.Collapse
