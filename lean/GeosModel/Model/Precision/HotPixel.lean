/-!
# `noding::snapround::HotPixel` — the pixel tests of snap rounding, over `Int`

All ordinates (the pixel sides `hp ∓ ½`, the already scaled segment endpoints) are exact integers in one common
unit: the driver brings the doubles the C++ code compares to a common power of two (`F64.scaleTo`), so the
comparisons and the orientation determinants below are the exact ones.  With the unit ½ ("doubling") a pixel
centred at the integer point `(hx, hy)` is `Px.ofCentre2 hx hy = [2hx−1, 2hx+1) × [2hy−1, 2hy+1)`.

`intersectsPt` is `HotPixel::intersects(const CoordinateXY&)`, `intersectsScaled` is
`HotPixel::intersectsScaled(p0x,p0y,p1x,p1y)`, statement for statement (src/noding/snapround/HotPixel.cpp).
`CGAlgorithmsDD::orientationIndex` is modelled by the exact sign of its determinant (C07 covers that function).
Core Lean only.
-/
namespace GeosModel.Precision

/-- the four sides `minx = hpx − TOLERANCE`, `maxx = hpx + TOLERANCE`, … of a hot pixel -/
structure Px where
  minx : Int
  maxx : Int
  miny : Int
  maxy : Int
deriving Repr, DecidableEq

/-- pixel of half-width `tol` centred at `(hx, hy)` -/
def Px.ofCentre (hx hy tol : Int) : Px := ⟨hx - tol, hx + tol, hy - tol, hy + tol⟩

/-- pixel centred at the integer point `(hx, hy)` after doubling all coordinates (unit ½) -/
def Px.ofCentre2 (hx hy : Int) : Px := Px.ofCentre (2 * hx) (2 * hy) 1

/-- `HotPixel::intersects(p)`: the half-open square test -/
def intersectsPt (h : Px) (x y : Int) : Bool :=
  if h.maxx ≤ x then false          -- x >= hpx + TOLERANCE
  else if x < h.minx then false     -- check Left side
  else if h.maxy ≤ y then false     -- check Top side
  else if y < h.miny then false     -- check Bottom side
  else true

/-- `CGAlgorithmsDD::orientationIndex(p1, p2, q)`: sign of `dx1*dy2 − dy1*dx2` with
`d1 = p2 − p1`, `d2 = q − p2` (1 = q left of p1→p2, −1 right, 0 collinear) -/
def orientIdx (p1x p1y p2x p2y qx qy : Int) : Int :=
  ((p2x - p1x) * (qy - p2y) - (p2y - p1y) * (qx - p2x)).sign

/-- the body of `HotPixel::intersectsScaled` after the endpoints have been ordered so that `px ≤ qx` -/
def intersectsOriented (h : Px) (px py qx qy : Int) : Bool :=
  -- segment envelope vs pixel envelope (Top and Right sides are open)
  if h.maxx ≤ min px qx then false          -- check Right side
  else if max px qx < h.minx then false     -- check Left side
  else if h.maxy ≤ min py qy then false     -- check Top side
  else if max py qy < h.miny then false     -- check Bottom side
  -- vertical or horizontal segments must now intersect the segment interior or Left or Bottom sides
  else if px = qx then true
  else if py = qy then true
  else
    let orientUL := orientIdx px py qx qy h.minx h.maxy
    if orientUL = 0 then (if py < qy then false else true)      -- upward segment does not intersect pixel interior
    else
      let orientUR := orientIdx px py qx qy h.maxx h.maxy
      if orientUR = 0 then (if qy < py then false else true)    -- downward segment does not intersect pixel interior
      else if orientUL ≠ orientUR then true        -- crossing Top side
      else
        let orientLL := orientIdx px py qx qy h.minx h.miny
        if orientLL = 0 then true                  -- LL corner is the only one in pixel interior
        else if orientLL ≠ orientUL then true      -- crossing Left side
        else
          let orientLR := orientIdx px py qx qy h.maxx h.miny
          if orientLR = 0 then (if py < qy then false else true)
          else if orientLL ≠ orientLR then true    -- crossing Bottom side
          else if orientLR ≠ orientUR then true    -- crossing Right side
          else false

/-- `HotPixel::intersectsScaled`: orient the segment in positive X direction (`if (px > qx) swap`), then test -/
def intersectsScaled (h : Px) (p0x p0y p1x p1y : Int) : Bool :=
  if p1x < p0x then intersectsOriented h p1x p1y p0x p0y
  else intersectsOriented h p0x p0y p1x p1y

end GeosModel.Precision
