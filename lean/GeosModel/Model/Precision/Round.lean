import GeosModel.Base.F64
/-!
# Rounding to a precision grid  (`geos::util::java_math_round`, `PrecisionModel::makePrecise`, `setScale`)

Two layers, both executable, core Lean only.

* **exact layer** over `Rat`: `javaRound` follows the branches of `java_math_round` in `src/util/math.cpp`
  (`modf`, compare the fractional part with ½, `floor`/`ceil`/`n+1`/`n`), `makePreciseScale` / `makePreciseGrid`
  are the two arithmetic branches of `PrecisionModel::makePrecise` (`round(val*scale)/scale` for grid size ≤ 1,
  `round(val/gridSize)*gridSize` for grid size > 1) with exact arithmetic.
* **binary64 layer** over `F64.Val` (sign / mantissa / exponent, NaN, ±Inf, signed zeros): `roundNE` is the exact
  round-to-nearest-even of a non-negative rational to a double; `mulF divF addF subF` are the IEEE-754 operations
  defined as `roundNE` of the exact result plus the special-value table; `javaRoundF` is `java_math_round` on doubles
  (exact: the result is always representable; NaN and ±Inf pass through, a zero result keeps the sign of the
  argument); `PM.setScale` is the constructor logic `PrecisionModel(double scale)` and `PM.makePrecise` the floating
  composition the library executes.
-/
namespace GeosModel.Precision
open GeosModel.F64 (Val)

/-! ## exact layer -/

def half : Rat := 1 / 2

def absQ (x : Rat) : Rat := if x < 0 then -x else x

/-- `std::ceil` on exact rationals -/
def ceilQ (x : Rat) : Int := -((-x).floor)

/-- integer part as returned through the pointer argument of `std::modf` (truncation toward zero) -/
def modfInt (x : Rat) : Int := if 0 ≤ x then x.floor else ceilQ x

/-- `java_math_round`, branch for branch -/
def javaRound (x : Rat) : Int :=
  let n := modfInt x
  let f := absQ (x - n)
  if 0 ≤ x then
    if f < half then x.floor
    else if half < f then ceilQ x
    else n + 1
  else
    if f < half then ceilQ x
    else if half < f then x.floor
    else n

/-- `sym_round` ("equivalent to C99 round()": half away from zero), branch for branch; NOT what `util::round` calls —
it differs from `javaRound` exactly at the negative ties (last branch: `n - 1` instead of `n`) -/
def symRound (x : Rat) : Int :=
  let n := modfInt x
  let f := absQ (x - n)
  if 0 ≤ x then
    if f < half then x.floor
    else if half < f then ceilQ x
    else n + 1
  else
    if f < half then ceilQ x
    else if half < f then x.floor
    else n - 1

/-- `makePrecise`, branch `gridSize ≤ 1` (`scale ≠ 0`): `round(val * scale) / scale` -/
def makePreciseScale (scale x : Rat) : Rat := (javaRound (x * scale) : Rat) / scale

/-- `makePrecise`, branch `gridSize > 1`: `round(val / gridSize) * gridSize` -/
def makePreciseGrid (gridSize x : Rat) : Rat := (javaRound (x / gridSize) : Rat) * gridSize

/-- the branch selection of `makePrecise` for a FIXED model with exact arithmetic -/
def makePreciseQ (scale gridSize x : Rat) : Rat :=
  if 1 < gridSize then makePreciseGrid gridSize x
  else if scale ≠ 0 then makePreciseScale scale x
  else x

/-! ## binary64 layer -/

def pow2 (k : Nat) : Nat := 2 ^ k

/-- is `a / d ≥ 2^k` (k may be negative)? -/
def geScaled (a d : Nat) (k : Int) : Bool :=
  if 0 ≤ k then decide (d * pow2 k.toNat ≤ a) else decide (d ≤ a * pow2 (-k).toNat)

/-- exponent `e ≥ -1074` of the binade of `a/d` (`2^(52+e) ≤ a/d < 2^(53+e)` unless clamped) ; `a,d > 0` -/
def binadeExp (a d : Nat) : Int :=
  let e1 : Int := (a.log2 : Int) - (d.log2 : Int) - 52
  let e := if geScaled a d (52 + e1) then e1 else e1 - 1
  if e < -1074 then -1074 else e

/-- round half to even of `num/den` -/
def divRoundEven (num den : Nat) : Nat :=
  let q := num / den
  let r := num % den
  if den < 2 * r then q + 1 else if 2 * r = den then q + q % 2 else q

/-- Round-to-nearest-even of the non-negative rational `a/d` (`d > 0`) to binary64.
`none` = overflow (→ ±Inf), `some (m, e)` = `m * 2^e` in the canonical form `F64.decode` produces:
`2^52 ≤ m < 2^53, -1074 ≤ e ≤ 971` (normal) or `m < 2^52, e = -1074` (subnormal / zero). -/
def roundMag (a d : Nat) : Option (Nat × Int) :=
  if a = 0 then some (0, -1074) else
  let e := binadeExp a d
  let m := if 0 ≤ e then divRoundEven a (d * pow2 e.toNat) else divRoundEven (a * pow2 (-e).toNat) d
  let (m, e) := if m = pow2 53 then (pow2 52, e + 1) else (m, e)
  if 971 < e then none else some (m, e)

/-- `roundNE`: nearest double of the rational `q`; an exactly-zero result takes the sign `zneg` -/
def roundNE (zneg : Bool) (q : Rat) : Val :=
  if q.num = 0 then .fin zneg 0 (-1074) else
  let neg := decide (q.num < 0)
  match roundMag q.num.natAbs q.den with
  | none => .inf neg
  | some (m, e) => .fin neg m e

/-- exact value of a finite double -/
def finRat (neg : Bool) (m : Nat) (e : Int) : Rat :=
  let v : Rat := if 0 ≤ e then ((m * pow2 e.toNat : Nat) : Rat) else (m : Rat) / (pow2 (-e).toNat : Rat)
  if neg then -v else v

def vToRat? : Val → Option Rat
  | .fin neg m e => some (finRat neg m e)
  | _ => none

def vIsNeg : Val → Bool
  | .fin neg _ _ => neg
  | .inf neg => neg
  | .nan => false

def vIsZero : Val → Bool
  | .fin _ m _ => m == 0
  | _ => false

def vIsFin : Val → Bool
  | .fin .. => true
  | _ => false

def vNegate : Val → Val
  | .fin neg m e => .fin (!neg) m e
  | .inf neg => .inf (!neg)
  | .nan => .nan

def vFabs : Val → Val
  | .fin _ m e => .fin false m e
  | .inf _ => .inf false
  | .nan => .nan

/-- IEEE comparison `a < b` (false when unordered) -/
def vLt : Val → Val → Bool
  | .nan, _ | _, .nan => false
  | .inf na, .inf nb => na && !nb
  | .inf na, .fin .. => na
  | .fin .., .inf nb => !nb
  | .fin n1 m1 e1, .fin n2 m2 e2 => decide (finRat n1 m1 e1 < finRat n2 m2 e2)

/-- IEEE `a == b` -/
def vFeq : Val → Val → Bool
  | .nan, _ | _, .nan => false
  | .inf na, .inf nb => na == nb
  | .inf _, .fin .. | .fin .., .inf _ => false
  | .fin n1 m1 e1, .fin n2 m2 e2 => decide (finRat n1 m1 e1 = finRat n2 m2 e2)

def vLe (a b : Val) : Bool := vLt a b || vFeq a b
def vIsNaN : Val → Bool | .nan => true | _ => false

def mulF : Val → Val → Val
  | .nan, _ | _, .nan => .nan
  | .inf na, .inf nb => .inf (na != nb)
  | .inf na, .fin nb m _ => if m = 0 then .nan else .inf (na != nb)
  | .fin na m _, .inf nb => if m = 0 then .nan else .inf (na != nb)
  | .fin n1 m1 e1, .fin n2 m2 e2 => roundNE (n1 != n2) (finRat n1 m1 e1 * finRat n2 m2 e2)

def divF : Val → Val → Val
  | .nan, _ | _, .nan => .nan
  | .inf _, .inf _ => .nan
  | .inf na, .fin nb _ _ => .inf (na != nb)
  | .fin na _ _, .inf nb => .fin (na != nb) 0 (-1074)
  | .fin n1 m1 e1, .fin n2 m2 e2 =>
    if m2 = 0 then (if m1 = 0 then .nan else .inf (n1 != n2))
    else roundNE (n1 != n2) (finRat n1 m1 e1 / finRat n2 m2 e2)

def addF : Val → Val → Val
  | .nan, _ | _, .nan => .nan
  | .inf na, .inf nb => if na == nb then .inf na else .nan
  | .inf na, .fin .. => .inf na
  | .fin .., .inf nb => .inf nb
  | .fin n1 m1 e1, .fin n2 m2 e2 =>
    -- exact zero sum: −0 only when both operands are −0 (round-to-nearest mode)
    roundNE (n1 && n2 && m1 == 0 && m2 == 0) (finRat n1 m1 e1 + finRat n2 m2 e2)

def subF (a b : Val) : Val := addF a (vNegate b)

def ofInt (zneg : Bool) (i : Int) : Val := roundNE zneg (i : Rat)

/-- `java_math_round` on doubles.  `modf`, `floor`, `ceil`, `n ± 1` are exact, so the value is `javaRound` of the
exact argument (always representable); NaN falls through every comparison and returns `n` = NaN; ±Inf returns
itself; a zero result carries the sign of the argument (`floor(-0.0)`, `ceil(-0.3)`, `n = -0.0` for −0.5). -/
def javaRoundF : Val → Val
  | .nan => .nan
  | .inf neg => .inf neg
  | .fin neg m e => ofInt neg (javaRound (finRat neg m e))

/-- `std::round` (half away from zero) on doubles, used by `snapToInt` -/
def stdRoundF : Val → Val
  | .nan => .nan
  | .inf neg => .inf neg
  | .fin neg m e =>
    let a := finRat false m e
    let r : Int := (a + half).floor
    ofInt neg (if neg then -r else r)

def one : Val := .fin false (pow2 52) (-52)
def zero : Val := .fin false 0 (-1074)
def halfF : Val := .fin false (pow2 52) (-53)
/-- the double nearest to `1e-5` (`GRIDSIZE_INTEGER_TOLERANCE`), bits `0x3EE4F8B588E368F1` -/
def tol1em5 : Val := F64.decode 0x3EE4F8B588E368F1

/-- `PrecisionModel::snapToInt` -/
def snapToInt (v tol : Val) : Val :=
  let vi := stdRoundF v
  if vLt (vFabs (subF v vi)) tol then vi else v

/-- a FIXED precision model: the two fields `makePrecise` reads -/
structure PM where
  scale : Val
  gridSize : Val
deriving Repr, DecidableEq

/-- `PrecisionModel::setScale` (called by the constructor `PrecisionModel(double newScale)`).  The
`newScale == 0` block assigns both fields and then *falls through*, as in the source. -/
def PM.setScale (newScale : Val) : PM :=
  let scale := if vLt newScale zero then divF one (vFabs newScale) else newScale
  if vLt scale one then
    { scale := scale, gridSize := snapToInt (divF one scale) tol1em5 }
  else
    let scale := snapToInt scale tol1em5
    { scale := scale, gridSize := divF one scale }

/-- `GEOSGeom_setPrecision_r` / `GEOS*Prec_r`: `PrecisionModel(1.0 / gridSize)` (setPrecision takes `fabs` first) -/
def PM.ofGridSize (g : Val) : PM := PM.setScale (divF one (vFabs g))

/-- `PrecisionModel::makePrecise` for `modelType == FIXED`, the floating composition -/
def PM.makePrecise (pm : PM) (v : Val) : Val :=
  if vLt one pm.gridSize then mulF (javaRoundF (divF v pm.gridSize)) pm.gridSize
  else if !(vFeq pm.scale zero) then divF (javaRoundF (mulF v pm.scale)) pm.scale
  else v

/-- bit pattern of a value (`nan` → the canonical quiet NaN) -/
def encode : Val → UInt64
  | .nan => 0x7ff8000000000000
  | .inf neg => if neg then 0xfff0000000000000 else 0x7ff0000000000000
  | .fin neg m e =>
    let s : UInt64 := if neg then 0x8000000000000000 else 0
    if m < pow2 52 then s ||| UInt64.ofNat m
    else s ||| (UInt64.ofNat ((e + 1075).toNat) <<< 52) ||| UInt64.ofNat (m - pow2 52)

/-- `PrecisionModel::Type` (the enumerators FIXED, FLOATING, FLOATING_SINGLE) -/
inductive ModelType where
  | fixed | floating | floatingSingle
deriving DecidableEq, Repr

/-- `PrecisionModel::makePrecise` for every model type: FIXED rounds to the grid, FLOATING is the identity,
FLOATING_SINGLE converts to `float` and back (`toFloat` = that conversion, not modelled further) -/
def PM.makePreciseT (toFloat : Val → Val) (t : ModelType) (pm : PM) (v : Val) : Val :=
  match t with
  | .fixed => pm.makePrecise v
  | .floating => v
  | .floatingSingle => toFloat v

/-- `makePrecise` on bit patterns -/
def PM.makePreciseBits (pm : PM) (u : UInt64) : UInt64 := encode (pm.makePrecise (F64.decode u))

/-- `v` is on the grid of `pm`: a fixed point of the floating `makePrecise`, bit for bit (NaN never is) -/
def PM.onGrid (pm : PM) (u : UInt64) : Bool :=
  match F64.decode u with
  | .nan => false
  | v => encode (pm.makePrecise v) == u

end GeosModel.Precision
