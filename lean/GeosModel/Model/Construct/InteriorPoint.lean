import GeosModel.Model.Construct.Check
/-!
Model of `algorithm::InteriorPointArea` (src/algorithm/InteriorPointArea.cpp) over exact integer points
(`Kernel.Pt`; doubles are brought to a common power of two by the driver), and the rules of
`InteriorPointLine` / `InteriorPointPoint` as checkers.

* `ScanLineYOrdinateFinder`  — `updateInterval`, `scanInterval`: the interval `(loY, hiY)` of vertex ordinates around
  the centre of the *shell's* Y extent; the scan line is `Y = (loY + hiY) / 2`, kept here as the doubled value
  `Y2 = loY + hiY` so that everything stays in `Int`
* `InteriorPointPolygon`     — `edgeCrossing` (`intersectsHorizontalLine`, `isEdgeCrossingCounted`, `intersection`),
  `ringCrossings`, the sorted crossing list, `sections` (consecutive pairs) and `bestSection` (first widest)
* `InteriorPointArea`        — polygons in traversal order, the first strictly widest section wins

The C++ computes `avg`, the crossing abscissa `x0 + (Y − y0) / ((y1 − y0) / (x1 − x0))` and the widths in doubles; the
model computes them as exact rationals (`Construct.Q`).  On integer-grid inputs `avg` of two ordinates is exact, and
the abscissa is exact for vertical edges; the driver compares abscissae to 1e-9 of the coordinate magnitude.

Core Lean only (linked into the driver).
-/
namespace GeosModel.Construct
open GeosModel.Kernel

/-! ## ScanLineYOrdinateFinder -/

/-- `updateInterval(y)`; `s2 = minY + maxY` is twice `centreY`, `st = (loY, hiY)` -/
def updateInterval (s2 : Int) (st : Int × Int) (y : Int) : Int × Int :=
  if 2 * y ≤ s2 then (if st.1 < y then (y, st.2) else st)
  else (if y < st.2 then (st.1, y) else st)

/-- `process(ring)` for every ring in turn: a left fold of `updateInterval` over the ordinates -/
def scanFold (s2 : Int) (st : Int × Int) (ys : List Int) : Int × Int := ys.foldl (updateInterval s2) st

/-- Y ordinates of the rings in the order the finder reads them: shell first, then the holes -/
def ringYs (rings : List (List Pt)) : List Int := rings.flatMap fun r => r.map (·.y)

/-- `(loY, hiY)` at the end of `getScanLineY()`; the extremal values come from the polygon envelope, which is
the envelope of the **shell** (`Polygon::getEnvelopeInternal`).  `none` for an empty shell. -/
def scanInterval (rings : List (List Pt)) : Option (Int × Int) :=
  match rings with
  | [] => none
  | shell :: _ =>
    match shell with
    | [] => none
    | p :: r =>
      let minY := minL p.y (r.map (·.y))
      let maxY := maxL p.y (r.map (·.y))
      some (scanFold (minY + maxY) (minY, maxY) (ringYs rings))

/-- twice the scan-line ordinate -/
def scanY2 (rings : List (List Pt)) : Option Int := (scanInterval rings).map fun st => st.1 + st.2

/-! ## InteriorPointPolygon -/

/-- `addEdgeCrossing`: the abscissa of the counted crossing of edge `p0 → p1` with the line `2y = y2`, if any -/
def edgeCrossing (y2 : Int) (p0 p1 : Pt) : Option Q :=
  -- intersectsHorizontalLine(p0, p1, scanY)
  if y2 < 2 * p0.y ∧ y2 < 2 * p1.y then none
  else if 2 * p0.y < y2 ∧ 2 * p1.y < y2 then none
  -- isEdgeCrossingCounted
  else if p0.y = p1.y then none
  else if 2 * p0.y = y2 ∧ 2 * p1.y < y2 then none
  else if 2 * p1.y = y2 ∧ 2 * p0.y < y2 then none
  -- intersection
  else if p0.x = p1.x then some (Q.ofInt p0.x)
  else some (Q.add (Q.ofInt p0.x) (Q.div ((y2 - 2 * p0.y) * (p1.x - p0.x)) (2 * (p1.y - p0.y))))

def ringCrossings (y2 : Int) (ring : List Pt) : List Q := (edges ring).filterMap fun e => edgeCrossing y2 e.1 e.2

def insertQ (x : Q) : List Q → List Q
  | [] => [x]
  | y :: r => if y.lt x then y :: insertQ x r else x :: y :: r

def sortQ : List Q → List Q
  | [] => []
  | x :: r => insertQ x (sortQ r)

/-- consecutive pairs `(c₀,c₁), (c₂,c₃), …` of the sorted crossing list -/
def pairUp : List Q → List (Q × Q)
  | a :: b :: r => (a, b) :: pairUp r
  | _ => []

/-- the interior sections of the scan line: sorted crossings of all rings, paired -/
def sections (y2 : Int) (rings : List (List Pt)) : List (Q × Q) := pairUp (sortQ (rings.flatMap (ringCrossings y2)))

def width (s : Q × Q) : Q := Q.sub s.2 s.1

/-- `findBestMidpoint`: the first section that is strictly wider than everything before it (and than `w0`) -/
def bestFrom (w0 : Q) (best : Option (Q × Q)) : List (Q × Q) → Q × Option (Q × Q)
  | [] => (w0, best)
  | s :: r => if w0.lt (width s) then bestFrom (width s) (some s) r else bestFrom w0 best r

/-- what one polygon contributes: its doubled scan ordinate, its sections, the widest section (if one has positive
width) -/
structure PolyScan where
  y2 : Int
  secs : List (Q × Q)
  best : Option (Q × Q)
  first : Pt                 -- `*polygon.getCoordinate()`: the answer when no section has positive width

def polyScan (rings : List (List Pt)) : Option PolyScan :=
  match rings, scanY2 rings with
  | (p :: _) :: _, some y2 =>
    let secs := sections y2 rings
    some ⟨y2, secs, (bestFrom ⟨0, 1⟩ none secs).2, p⟩
  | _, _ => none

def midQ (s : Q × Q) : Q := Q.mul (Q.add s.1 s.2) ⟨1, 2⟩

/-- the candidate answers of `InteriorPointArea` for the non-empty polygons `polys` (each `shell :: holes`, empty
rings removed): `(x, 2y, width)` of the midpoint of every section of every polygon; the implementation returns the
first one of maximal width (in double arithmetic) -/
def ipaCandidates (polys : List (List (List Pt))) : List (Q × Int × Q) :=
  polys.flatMap fun rs => match polyScan rs with
    | some ps => ps.secs.map fun s => (midQ s, ps.y2, width s)
    | none => []

/-- largest section width over all polygons (0 when there is none) -/
def ipaMaxWidth (polys : List (List (List Pt))) : Q :=
  (ipaCandidates polys).foldl (fun m c => if m.lt c.2.2 then c.2.2 else m) ⟨0, 1⟩

/-- exact-arithmetic answer of `InteriorPointArea`: polygons in order, the first strictly widest section wins; a
polygon without a section of positive width offers its first coordinate with width 0 -/
def ipaExact (polys : List (List (List Pt))) : Option (Q × Q) :=
  let step := fun (acc : Option (Q × (Q × Q))) (rs : List (List Pt)) =>
    match polyScan rs with
    | none => acc
    | some ps =>
      let (w, pt) : Q × (Q × Q) := match ps.best with
        | some s => (width s, (midQ s, ⟨ps.y2, 2⟩))
        | none => (⟨0, 1⟩, (Q.ofInt ps.first.x, Q.ofInt ps.first.y))
      match acc with
      | none => some (w, pt)
      | some (w0, _) => if w0.lt w then some (w, pt) else acc
  (polys.foldl step none).map (·.2)

/-! ## InteriorPointLine / InteriorPointPoint -/

/-- interior vertices `pts[1 .. n-2]` of a line -/
def interiorVertices (l : List Pt) : List Pt := (l.drop 1).dropLast

/-- end points `pts[0]`, `pts[n-1]` -/
def endVertices (l : List Pt) : List Pt :=
  match l with
  | [] => []
  | [a] => [a]
  | a :: r => [a, r.getLast?.getD a]

/-- the vertices `InteriorPointLine` chooses from: interior vertices of all lines when there is one, else end points -/
def lineCandidates (lines : List (List Pt)) : List Pt :=
  let inner := lines.flatMap interiorVertices
  if inner.isEmpty then lines.flatMap endVertices else inner

/-- squared distance from an integer point to a rational point -/
def sqDistQ (p : Pt) (c : Q × Q) : Q :=
  let dx := Q.sub (Q.ofInt p.x) c.1
  let dy := Q.sub (Q.ofInt p.y) c.2
  Q.add (Q.mul dx dx) (Q.mul dy dy)

/-- `⌊√(q · 4^bits)⌋` of a non-negative rational -/
def sqrtQ (bits : Nat) (q : Q) : Nat :=
  if q.den = 0 then 0 else Nat.sqrt (q.num.toNat * 4 ^ bits / q.den)

/-- `q` is (up to `tol`, in units of `2^-bits`) a nearest candidate to `c` -/
def nearestOK (bits : Nat) (tol : Nat) (cands : List Pt) (c : Q × Q) (q : Pt) : Bool :=
  let dq := sqrtQ bits (sqDistQ q c)
  cands.all fun p => decide (dq ≤ sqrtQ bits (sqDistQ p c) + tol + 2)

end GeosModel.Construct
