import GeosModel.Base.Kernel
/-!
Exact certificate checkers for the constructions of C20, over integer points (`Kernel.Pt`; doubles are brought
to a common power of two with `F64.scaleAll`, which preserves every predicate used here).

* `hullCheck`      — the output is the convex hull: corners ⊆ inputs, every input on the inner side of every edge,
                     every corner a strict turn (so also: convex)
* `envCheck`       — the output has exactly the tight axis-parallel bounds of the input
* `mbcCheck`       — the support points (1, 2 or 3 input points) determine a circle containing every input:
                     diametral circle (2) or circumscribed circle of a non-obtuse triangle (3)
* `minWidth2` / `minRectArea` — exact minimum over hull edge directions of the squared width / rectangle area
* `posCheck`       — the point lies in the interior of the polygon (`Kernel.locateInPolygon`)
* `centroidArea` / `centroidLine` / `centroidPts` — the exact weighted means `Centroid` approximates

Rationals are pairs `Q = (num : Int, den : Nat)` compared by cross-multiplication; no Mathlib.
Core Lean only (linked into the driver).
-/
namespace GeosModel.Construct
open GeosModel.Kernel

/-! ## rationals as integer pairs -/

/-- `num / den`, `den > 0` by construction (never normalised) -/
structure Q where
  num : Int
  den : Nat
deriving Repr, Inhabited

namespace Q
def ofInt (n : Int) : Q := ⟨n, 1⟩
def le (a b : Q) : Bool := decide (a.num * b.den ≤ b.num * a.den)
def lt (a b : Q) : Bool := decide (a.num * b.den < b.num * a.den)
def add (a b : Q) : Q := ⟨a.num * b.den + b.num * a.den, a.den * b.den⟩
def sub (a b : Q) : Q := ⟨a.num * b.den - b.num * a.den, a.den * b.den⟩
def mul (a b : Q) : Q := ⟨a.num * b.num, a.den * b.den⟩
def abs (a : Q) : Q := ⟨a.num.natAbs, a.den⟩
/-- `n / d` for integers, sign moved to the numerator; `d = 0` gives `0/1` -/
def div (n d : Int) : Q := if d = 0 then ⟨0, 1⟩ else if d < 0 then ⟨-n, d.natAbs⟩ else ⟨n, d.natAbs⟩
end Q

/-- membership by decidable equality -/
def memB (a : Pt) : List Pt → Bool
  | [] => false
  | x :: r => decide (a = x) || memB a r

/-! ## convex hull -/

/-- what `Geometry::convexHull()` can return -/
inductive HullOut where
  | empty
  | point (p : Pt)
  | segment (a b : Pt)
  | ring (r : List Pt)          -- closed: first = last
deriving Repr

/-- every point is on the `sgn` side of (or on) the line a→b -/
def sideAll (sgn : Int) (a b : Pt) (pts : List Pt) : Bool := pts.all fun p => decide (0 ≤ sgn * det a b p)

/-- every input point is on the inner side of every edge -/
def ringCovers (sgn : Int) (ring pts : List Pt) : Bool := (edges ring).all fun e => sideAll sgn e.1 e.2 pts

/-- consecutive triples of a vertex list -/
def triples : List Pt → List (Pt × Pt × Pt)
  | a :: b :: c :: r => (a, b, c) :: triples (b :: c :: r)
  | _ => []

/-- the turns at every corner of a closed ring `p0 … p(n-1) p0` (the wrap-around corner `p(n-1) p0 p1` included) -/
def cornerTurns (ring : List Pt) : List (Pt × Pt × Pt) := triples (ring ++ (ring.drop 1).take 1)

/-- every corner is a strict turn in direction `sgn` -/
def strictTurns (sgn : Int) (ring : List Pt) : Bool := (cornerTurns ring).all fun t => decide (0 < sgn * det t.1 t.2.1 t.2.2)

def isClosedRing (r : List Pt) : Bool := match r with
  | [] => false
  | a :: t => decide ((a :: t).getLast? = some a)

def ringOK (sgn : Int) (r pts : List Pt) : Bool := ringCovers sgn r pts && strictTurns sgn r

def hullCheck (pts : List Pt) : HullOut → Bool
  | .empty => pts.isEmpty
  | .point p => !pts.isEmpty && pts.all (fun q => decide (q = p))
  | .segment a b => decide (a ≠ b) && memB a pts && memB b pts && pts.all (fun p => onSegment a b p)
  | .ring r => isClosedRing r && decide (4 ≤ r.length) && r.all (fun c => memB c pts) &&
      (ringOK 1 r pts || ringOK (-1) r pts)

/-- the same without the strict-corner requirement (used for full-precision inputs, where an exactly collinear
hull vertex can survive GEOS's double-double orientation test): corners ⊆ inputs and every input on the inner side of
every edge -/
def hullCheckWeak (pts : List Pt) : HullOut → Bool
  | .ring r => isClosedRing r && decide (4 ≤ r.length) && r.all (fun c => memB c pts) &&
      (ringCovers 1 r pts || ringCovers (-1) r pts)
  | h => hullCheck pts h

/-! ## envelope -/

def minL : Int → List Int → Int
  | m, [] => m
  | m, x :: r => minL (if x < m then x else m) r

def maxL : Int → List Int → Int
  | m, [] => m
  | m, x :: r => maxL (if m < x then x else m) r

structure Box where
  minx : Int
  maxx : Int
  miny : Int
  maxy : Int
deriving DecidableEq, Repr

/-- the tight bounds of a point list (`none` for the empty list) -/
def boxOf : List Pt → Option Box
  | [] => none
  | p :: r => some ⟨minL p.x (r.map (·.x)), maxL p.x (r.map (·.x)), minL p.y (r.map (·.y)), maxL p.y (r.map (·.y))⟩

/-- the output of `getEnvelope()` (its vertex list) has exactly the input's bounds and only corner vertices -/
def envCheck (pts out : List Pt) : Bool :=
  match boxOf pts, boxOf out with
  | none, none => true
  | some b, some b' => decide (b = b') &&
      out.all (fun p => (decide (p.x = b.minx) || decide (p.x = b.maxx)) && (decide (p.y = b.miny) || decide (p.y = b.maxy)))
  | _, _ => false

/-! ## minimum bounding circle -/

def mbcCheck (pts : List Pt) : List Pt → Bool
  | [] => pts.isEmpty
  | [a] => memB a pts && pts.all (fun p => decide (p = a))
  | [a, b] => decide (a ≠ b) && memB a pts && memB b pts && pts.all (fun p => decide (dot p a b ≤ 0))
  | [a, b, c] =>
    decide (orient a b c ≠ 0) && memB a pts && memB b pts && memB c pts &&
    decide (0 ≤ dot a b c) && decide (0 ≤ dot b a c) && decide (0 ≤ dot c a b) &&
    pts.all (fun p => decide (0 ≤ orient a b c * inCircleDet a b c p))
  | _ => false

/-- exact centre (as rationals) of the circle determined by the support points -/
def mbcCentre : List Pt → Option (Q × Q)
  | [a] => some (Q.ofInt a.x, Q.ofInt a.y)
  | [a, b] => some (⟨a.x + b.x, 2⟩, ⟨a.y + b.y, 2⟩)
  | [a, b, c] =>
    let d := 2 * det a b c
    let a2 := a.x * a.x + a.y * a.y
    let b2 := b.x * b.x + b.y * b.y
    let c2 := c.x * c.x + c.y * c.y
    let ux := a2 * (b.y - c.y) + b2 * (c.y - a.y) + c2 * (a.y - b.y)
    let uy := a2 * (c.x - b.x) + b2 * (a.x - c.x) + c2 * (b.x - a.x)
    some (Q.div ux d, Q.div uy d)
  | _ => none

/-! ## minimum width and minimum-area rectangle over hull edge directions -/

def maxAbsDet (a b : Pt) (pts : List Pt) : Int := maxL 0 (pts.map fun p => ((det a b p).natAbs : Int))

/-- squared width of the point set in the direction perpendicular to a→b -/
def edgeWidth2 (pts : List Pt) (a b : Pt) : Q := ⟨maxAbsDet a b pts * maxAbsDet a b pts, (sqDist a b).natAbs⟩

/-- extent of the projections on a→b, times |ab| -/
def dotSpan (a b : Pt) (pts : List Pt) : Int :=
  match pts with
  | [] => 0
  | p :: r => maxL (dot a b p) (r.map (dot a b)) - minL (dot a b p) (r.map (dot a b))

/-- area of the enclosing rectangle with one side along a→b -/
def edgeRectArea (pts : List Pt) (a b : Pt) : Q := ⟨maxAbsDet a b pts * dotSpan a b pts, (sqDist a b).natAbs⟩

def properEdges (ring : List Pt) : List (Pt × Pt) := (edges ring).filter fun e => decide (e.1 ≠ e.2)

/-- least element of a non-empty list of rationals -/
def minQ : Q → List Q → Q
  | m, [] => m
  | m, x :: r => minQ (if x.lt m then x else m) r

def minOver (f : Pt → Pt → Q) (es : List (Pt × Pt)) : Option Q :=
  match es with
  | [] => none
  | e :: r => some (minQ (f e.1 e.2) (r.map fun e => f e.1 e.2))

/-- the exact minimum squared width over the hull's edge directions -/
def minWidth2 (pts ring : List Pt) : Option Q := minOver (edgeWidth2 pts) (properEdges ring)

/-- the exact minimum enclosing-rectangle area over the hull's edge directions -/
def minRectArea (pts ring : List Pt) : Option Q := minOver (edgeRectArea pts) (properEdges ring)

/-! ## point on surface -/

def posCheck (rings : List (List Pt)) (p : Pt) : Bool := decide (locateInPolygon p rings = .interior)

/-! ## centroid -/

/-- `Σ cross_i` and `Σ (p_i + p_{i+1}) cross_i` of a closed ring: twice the signed area and six times the first moments -/
def ringMoments (ring : List Pt) : Int × Int × Int :=
  (edges ring).foldl (fun (acc : Int × Int × Int) e =>
    let cr := e.1.x * e.2.y - e.2.x * e.1.y
    (acc.1 + cr, acc.2.1 + (e.1.x + e.2.x) * cr, acc.2.2 + (e.1.y + e.2.y) * cr)) (0, 0, 0)

/-- area-weighted centroid of signed rings (`sgn`, ring): `(Σ s·Mx) / (3 Σ s·A2)`; `none` when the area sum is 0 -/
def centroidArea (rings : List (Int × List Pt)) : Option (Q × Q) :=
  let t := rings.foldl (fun (acc : Int × Int × Int) r =>
    let m := ringMoments r.2
    (acc.1 + r.1 * m.1, acc.2.1 + r.1 * m.2.1, acc.2.2 + r.1 * m.2.2)) (0, 0, 0)
  if t.1 = 0 then none else some (Q.div t.2.1 (3 * t.1), Q.div t.2.2 (3 * t.1))

/-- integer square root with `bits` extra binary digits: `⌊√(n · 4^bits)⌋` -/
def sqrtScaled (bits : Nat) (n : Nat) : Nat := Nat.sqrt (n * 4 ^ bits)

/-- length-weighted centroid of segments, lengths taken to `bits` extra binary digits; `none` when all segments
are degenerate -/
def centroidLine (bits : Nat) (segs : List (Pt × Pt)) : Option (Q × Q) :=
  let t := segs.foldl (fun (acc : Int × Int × Int) e =>
    let w : Int := sqrtScaled bits (sqDist e.1 e.2).natAbs
    (acc.1 + w, acc.2.1 + w * (e.1.x + e.2.x), acc.2.2 + w * (e.1.y + e.2.y))) (0, 0, 0)
  if t.1 = 0 then none else some (Q.div t.2.1 (2 * t.1), Q.div t.2.2 (2 * t.1))

/-- mean of points -/
def centroidPts (ps : List Pt) : Option (Q × Q) :=
  if ps.isEmpty then none else
  let sx := ps.foldl (fun acc p => acc + p.x) 0
  let sy := ps.foldl (fun acc p => acc + p.y) 0
  some (Q.div sx ps.length, Q.div sy ps.length)

/-- `|a − b| ≤ tol` -/
def Q.near (a b tol : Q) : Bool := (Q.sub a b).abs.le tol

end GeosModel.Construct
