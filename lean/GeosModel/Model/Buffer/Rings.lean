import GeosModel.Base.Kernel
/-!
# Ring assembly of the buffer result (C06)

Faithful model, branch by branch, of the code that turns the result directed edges of the buffer's planar graph into rings:

* `geomgraph::EdgeEnd::compareDirection` / `Quadrant::quadrant`      → `quadrant`, `dirLt`, `star`
* `geomgraph::DirectedEdgeStar::getResultAreaEdges`                    → `resultArea`
* `geomgraph::DirectedEdgeStar::linkResultDirectedEdges` and
  `linkMinimalDirectedEdges` (the same two-state scan, over the CCW resp. CW list, with the predicate
  `isInResult` resp. `getEdgeRing() == er`)                            → `linkScan`
* `geomgraph::EdgeRing::computePoints` (do … while (de != startDe), following `getNext` — `next` for a
  `MaximalEdgeRing`, `nextMin` for a `MinimalEdgeRing`)                → `walkFrom`
* `PolygonBuilder::buildMaximalEdgeRings` (every result edge that has no ring yet starts a ring) and
  `MaximalEdgeRing::buildMinimalRings` (every edge of the maximal ring, visited by `getNext`, that has no
  minimal ring yet starts one)                                         → `buildRings`
* `EdgeRing::computeMaxNodeDegree`, `PolygonBuilder::buildMinimalEdgeRings` (`> 2` → split) → `maxNodeDegree`, `assemble`
* `EdgeRing::computeRing` (`isHole = isCCW`)                           → `isHole` (sign of the exact area; the rings are simple)
* `PolygonBuilder::findShell`, `placePolygonHoles`, `sortShellsAndHoles` → `groupRings`
* `PolygonBuilder::placeFreeHoles`, `findEdgeRingContaining` (envelope tests, `polygonize::EdgeRing::ptNotInList`, point-in-ring
  not EXTERIOR, "smaller than the current minimum" = the current minimum's envelope contains the candidate's) → `findContaining`, `polygons`

Directed edges are numbered as `PlanarGraph::addEdges` creates them: edge `i` gives `2 i` (forward) and `2 i + 1` (backward).
Core Lean only.
-/
namespace GeosModel.Buffer.Rings
open GeosModel.Kernel

/-- a noded edge of the graph: its points, and whether the forward / backward directed edge is in the result -/
structure REdge where
  pts : List Pt
  fwd : Bool
  bwd : Bool

abbrev DE := Nat

/-- `DirectedEdge::getSym` -/
def sym (d : DE) : DE := if d % 2 == 0 then d + 1 else d - 1

structure Graph where
  edges : Array REdge

namespace Graph

def numDE (g : Graph) : Nat := 2 * g.edges.size

/-- `DirectedEdge::isInResult` -/
def inResult (g : Graph) (d : DE) : Bool :=
  match g.edges[d / 2]? with
  | some e => if d % 2 == 0 then e.fwd else e.bwd
  | none => false

/-- the points of the directed edge in its own direction -/
def dePts (g : Graph) (d : DE) : List Pt :=
  match g.edges[d / 2]? with
  | some e => if d % 2 == 0 then e.pts else e.pts.reverse
  | none => []

/-- `EdgeEnd::getCoordinate` (the node the directed edge starts at) -/
def origin (g : Graph) (d : DE) : Option Pt := (g.dePts d).head?

/-- `EdgeEnd::dx, dy` -/
def dir (g : Graph) (d : DE) : Int × Int :=
  match g.dePts d with
  | a :: b :: _ => (b.x - a.x, b.y - a.y)
  | _ => (0, 0)

end Graph

/-- `Quadrant::quadrant`: NE = 0, NW = 1, SW = 2, SE = 3 -/
def quadrant (v : Int × Int) : Nat :=
  if v.1 ≥ 0 then (if v.2 ≥ 0 then 0 else 3) else (if v.2 ≥ 0 then 1 else 2)

/-- `a.compareDirection(b) < 0`: different quadrants decide; in one quadrant `a` is smaller when it is clockwise of `b`
(`Orientation::index(b.p0, b.p1, a.p1) < 0`) -/
def dirLt (a b : Int × Int) : Bool :=
  if a == b then false
  else if quadrant a < quadrant b then true
  else if quadrant a > quadrant b then false
  else decide (b.1 * a.2 - b.2 * a.1 < 0)

def insertBy (lt : DE → DE → Bool) (x : DE) : List DE → List DE
  | [] => [x]
  | y :: ys => if lt x y then x :: y :: ys else y :: insertBy lt x ys

/-- the `EdgeEndStar` of the node at `p`: all directed edges starting there, in increasing direction (CCW from the positive x axis) -/
def star (g : Graph) (p : Pt) : List DE :=
  ((List.range g.numDE).filter fun d => g.origin d == some p).foldl
    (fun acc d => insertBy (fun a b => dirLt (g.dir a) (g.dir b)) d acc) []

/-- `DirectedEdgeStar::getResultAreaEdges` -/
def resultArea (g : Graph) (p : Pt) : List DE :=
  (star g p).filter fun d => g.inResult d || g.inResult (sym d)

/-- The scan of `linkResultDirectedEdges` / `linkMinimalDirectedEdges` over the list of OUTGOING edges: state `none` =
SCANNING_FOR_INCOMING, `some inc` = LINKING_TO_OUTGOING.  Returns the links `(incoming, its successor)`.  When the last incoming
edge finds no outgoing edge at all (`firstOut == nullptr`: exception / failed assertion in C++) no link is made, which makes the
ring walk fail. -/
def linkScan (p : DE → Bool) : List DE → Option DE → Option DE → List (DE × DE)
  | [], firstOut, some inc => match firstOut with
    | some f => [(inc, f)]
    | none => []
  | [], _, none => []
  | out :: rest, firstOut, st =>
    let firstOut' := if firstOut.isNone && p out then some out else firstOut
    match st with
    | none => if p (sym out) then linkScan p rest firstOut' (some (sym out)) else linkScan p rest firstOut' none
    | some inc => if p out then (inc, out) :: linkScan p rest firstOut' none else linkScan p rest firstOut' (some inc)

def lookup (m : List (DE × DE)) (d : DE) : Option DE := (m.find? fun x => x.1 == d).map (·.2)

/-- `EdgeRing::computePoints`: `do { edges.push_back(de); de = getNext(de); } while (de != startDe)`; `none` when a null successor is
met (TopologyException) or the walk does not come back (the C++ throws "visited twice" or does not terminate) -/
def walkFrom (next : DE → Option DE) (start : DE) : Nat → DE → Option (List DE)
  | 0, _ => none
  | fuel + 1, cur =>
    match next cur with
    | none => none
    | some n => if n == start then some [cur] else (walkFrom next start fuel n).map (cur :: ·)

/-- `buildMaximalEdgeRings` / `buildMinimalRings`: go through the candidates in order; each one that does not yet belong to a ring
(`getEdgeRing() == nullptr` resp. `getMinEdgeRing() == nullptr`) starts a new ring, whose edges are marked -/
def buildRings (next : DE → Option DE) (fuel : Nat) : List DE → List DE → Option (List (List DE))
  | [], _ => some []
  | d :: rest, assigned =>
    if assigned.contains d then buildRings next fuel rest assigned
    else match walkFrom next d fuel d with
      | none => none
      | some r => (buildRings next fuel rest (assigned ++ r)).map (r :: ·)

/-- all links made by `PlanarGraph::linkResultDirectedEdges` (node by node; the links of different nodes concern different edges) -/
def resultLinks (g : Graph) : List (DE × DE) :=
  let nodes := ((List.range g.numDE).filterMap g.origin).eraseDups
  nodes.flatMap fun p => linkScan g.inResult (resultArea g p) none none

/-- `PolygonBuilder::buildMaximalEdgeRings` -/
def maxRings (g : Graph) : Option (List (List DE)) :=
  buildRings (lookup (resultLinks g)) g.numDE ((List.range g.numDE).filter g.inResult) []

/-- `EdgeRing::computeMaxNodeDegree`: twice the largest number of edges of the ring that start at one of its nodes -/
def maxNodeDegree (g : Graph) (ring : List DE) : Nat :=
  2 * (ring.foldl (fun m d => match g.origin d with
    | some p => max m ((star g p).filter ring.contains).length
    | none => m) 0)

/-- `MaximalEdgeRing::linkDirectedEdgesForMinimalEdgeRings`: at every node of the ring, `linkMinimalDirectedEdges(this)` scans the
result area edges in CW order -/
def minLinks (g : Graph) (ring : List DE) : List (DE × DE) :=
  let nodes := (ring.filterMap g.origin).eraseDups
  nodes.flatMap fun p => linkScan ring.contains (resultArea g p).reverse none none

/-- `MaximalEdgeRing::buildMinimalRings`: the maximal ring is walked with `getNext`, i.e. in the order of `ring` -/
def minRings (g : Graph) (ring : List DE) : Option (List (List DE)) :=
  buildRings (lookup (minLinks g ring)) g.numDE ring []

/-- `PolygonBuilder::buildMinimalEdgeRings`: rings through a node of degree > 2 are replaced by their minimal rings -/
def splitAll (g : Graph) : List (List DE) → Option (List (List DE))
  | [] => some []
  | r :: rest =>
    if maxNodeDegree g r > 2 then
      match minRings g r, splitAll g rest with
      | some ms, some out => some (ms ++ out)
      | _, _ => none
    else (splitAll g rest).map (r :: ·)

/-- the rings of the result polygons (as directed edge lists) -/
def assemble (g : Graph) : Option (List (List DE)) :=
  match maxRings g with
  | some ms => splitAll g ms
  | none => none

/-- no directed edge is the successor of two directed edges, in the result links and in the minimal links of every ring that is
split (the hypothesis of the disjointness theorems; evaluated by the driver on every case of stream `rings`) -/
def linksInjective (g : Graph) : Bool :=
  decide ((resultLinks g).map (·.2)).Nodup &&
  match maxRings g with
  | some ms => ms.all fun R => decide (maxNodeDegree g R ≤ 2) || decide ((minLinks g R).map (·.2)).Nodup
  | none => true

/-- points of a ring (`EdgeRing::addPoints`: the first edge gives all its points, every further edge drops its first point) -/
def ringPts (g : Graph) : List DE → List Pt
  | [] => []
  | d :: rest => g.dePts d ++ rest.flatMap fun e => (g.dePts e).drop 1

/-- `EdgeRing::isHole` (`Orientation::isCCW` of a simple ring = positive area) -/
def isHole (g : Graph) (ring : List DE) : Bool := decide (area2 (ringPts g ring) > 0)

/-! ### hole placement -/

structure Env where
  xmin : Int
  ymin : Int
  xmax : Int
  ymax : Int
deriving BEq, DecidableEq

def envOf : List Pt → Option Env
  | [] => none
  | p :: ps => some (ps.foldl (fun e q => ⟨min e.xmin q.x, min e.ymin q.y, max e.xmax q.x, max e.ymax q.y⟩) ⟨p.x, p.y, p.x, p.y⟩)

/-- `Envelope::contains` (= covers) -/
def Env.contains (a b : Env) : Bool :=
  decide (b.xmin ≥ a.xmin) && decide (b.xmax ≤ a.xmax) && decide (b.ymin ≥ a.ymin) && decide (b.ymax ≤ a.ymax)

/-- does shell `s` qualify as a container of the hole with points `hp` / envelope `he`?  (`findEdgeRingContaining`, loop body up to
`isContained`): envelopes differ, the shell's contains the hole's, and the first hole point that is not a vertex of the shell is not
EXTERIOR to the shell ring.  (No such point: GEOS tests the null coordinate, which is exterior.) -/
def qualifies (g : Graph) (hp : List Pt) (he : Env) (s : List DE) : Option Env :=
  let sp := ringPts g s
  match envOf sp with
  | none => none
  | some se =>
    if se == he then none
    else if !se.contains he then none
    else match hp.find? (fun p => !sp.contains p) with
      | none => none
      | some t => if locateInRing t sp != Loc.exterior then some se else none

/-- the update of `minShell`: the first qualifying shell, then every qualifying shell whose envelope the current minimum's contains -/
def pickMin (g : Graph) (hp : List Pt) (he : Env) : List (List DE) → Option (List DE × Env) → Option (List DE × Env)
  | [], st => st
  | s :: rest, st =>
    match qualifies g hp he s with
    | none => pickMin g hp he rest st
    | some se =>
      match st with
      | none => pickMin g hp he rest (some (s, se))
      | some (m, me) => if me.contains se then pickMin g hp he rest (some (s, se)) else pickMin g hp he rest (some (m, me))

/-- `PolygonBuilder::findEdgeRingContaining` -/
def findContaining (g : Graph) (hole : List DE) (shells : List (List DE)) : Option (List DE) :=
  let hp := ringPts g hole
  match envOf hp with
  | none => none
  | some he => (pickMin g hp he shells none).map (·.1)

structure Poly where
  shell : List DE
  holes : List (List DE)

/-- `buildMinimalEdgeRings` + `sortShellsAndHoles`: (polygons of split rings that contain a shell, free holes of split rings without
a shell, unsplit rings); two shells among the minimal rings of one maximal ring is a TopologyException (`none`) -/
def groupRings (g : Graph) : List (List DE) → Option (List Poly × List (List DE) × List (List DE))
  | [] => some ([], [], [])
  | R :: rest =>
    match groupRings g rest with
    | none => none
    | some (ps, free, simple) =>
      if maxNodeDegree g R > 2 then
        match minRings g R with
        | none => none
        | some ms =>
          match ms.filter (fun r => !isHole g r) with
          | [] => some (ps, ms ++ free, simple)
          | [sh] => some (⟨sh, ms.filter (isHole g)⟩ :: ps, free, simple)
          | _ => none
      else some (ps, free, R :: simple)

def addHole (ps : List Poly) (shell h : List DE) : List Poly :=
  ps.map fun p => if p.shell == shell then { p with holes := p.holes ++ [h] } else p

/-- `PolygonBuilder::add` + `getPolygons`: a free hole that no shell contains is discarded -/
def polygons (g : Graph) : Option (List Poly) :=
  match maxRings g with
  | none => none
  | some ms =>
    match groupRings g ms with
    | none => none
    | some (ps, free, simple) =>
      let shells := ps ++ (simple.filter fun r => !isHole g r).map fun r => ⟨r, []⟩
      let freeHoles := free ++ simple.filter (isHole g)
      let shellRings := shells.map (·.shell)
      some (freeHoles.foldl (fun acc h => match findContaining g h shellRings with
        | some s => addHole acc s h
        | none => acc) shells)

end GeosModel.Buffer.Rings
