import GeosModel.Model.Relate.Ref
import GeosModel.Model.Buffer.Params
/-!
# C06 SPEC — exact distance characterisation of a buffer

Everything is exact integer arithmetic: input coordinates are `Int`s (doubles scaled to a common power of two),
sample locations are homogeneous points `HPt = (x/w, y/w)`, squared distances are `Q = n/d` pairs compared
by cross-multiplication.

* `d2Pt`, `d2Seg` (projection–clamp formula), `d2Slab` (perpendicular distance when the foot of the perpendicular
  lies on the segment) — proved against `∀ t ∈ [0,1]` in `Proofs/Buffer/Dist.lean`.
* `Feat`: the features of an input under a parameter configuration that decide which locations the *ideal*
  buffer (exact arcs, exact mitres, exact caps) must / cannot contain.
* `cosLB`: a verified rational lower bound of `cos` (half-angle iteration from `cos y ≥ 1 − y²/2`; proved in
  `Proofs/Buffer/Cos.lean`), from which the tolerance `e(q) = 0.015 + 1 − cos(π/(4q))` is bounded on the safe side.
Core Lean only.
-/
namespace GeosModel.Buffer
open GeosModel.Kernel GeosModel.Relate

/-! ### rational lower bound of cos -/

/-- `π < piHi` (Mathlib `Real.pi_lt_d6`) -/
def piHi : Rat := 3141593 / 1000000
/-- `piLo < π` (Mathlib `Real.pi_gt_d6`) -/
def piLo : Rat := 3141592 / 1000000

def twoPow64 : Rat := 18446744073709551616

/-- round down to a multiple of 2⁻⁶⁴ (keeps the numbers small; result ≤ argument) -/
def rdown (c : Rat) : Rat := ((c * twoPow64).floor : Int) / twoPow64
/-- round up to a multiple of 2⁻⁶⁴ (result ≥ argument) -/
def rup (c : Rat) : Rat := ((c * twoPow64).ceil : Int) / twoPow64

/-- lower bound of `cos x` for every real `0 ≤ x ≤ y` (`y ≤ 3`): `k` halvings, `cos z ≥ 1 − z²/2` at the bottom,
`cos 2z = 2cos²z − 1` on the way up (monotone because the running bound is checked to be ≥ 0) -/
def cosLB : Nat → Rat → Option Rat
  | 0, y => some (rdown (1 - y * y / 2))
  | k + 1, y =>
    match cosLB k (y / 2) with
    | some c => if 0 ≤ c then some (rdown (2 * c * c - 1)) else none
    | none => none

/-- upper bound of `cos x` for every real `x ≥ y ≥ 0` with `x ≤ 3`: `cos z ≤ 1 − z²/2 + 5z⁴/96` for `|z| ≤ 1` at the bottom -/
def cosUB : Nat → Rat → Option Rat
  | 0, y => if y ≤ 1 then some (rup (1 - y * y / 2 + y * y * y * y * 5 / 96)) else none
  | k + 1, y =>
    match cosUB k (y / 2) with
    | some c => some (rup (2 * c * c - 1))
    | none => none

def halvings : Nat := 12

/-- lower bound of `cos(π·a)` for a rational `0 ≤ a` with `π·a ≤ 3`; falls back to the trivial bound 0 (valid for `π·a ≤ π/2`) -/
def cosPiLo (a : Rat) : Rat := (cosLB halvings (piHi * a)).getD 0
/-- upper bound of `cos(π·a)`; falls back to 1 -/
def cosPiHi (a : Rat) : Rat := (cosUB halvings (piLo * a)).getD 1

/-- the quadrant-segment value the tolerance table is indexed with: clamped like the generator (`< 1 → 1`) and
capped at 32 (`cos(π/(4q))` increases with `q`, so the entry for 32 is a valid lower bound for larger `q`) -/
def tableQ (q : Int) : Int := if q < 1 then 1 else if q > 32 then 32 else q

/-- lower / upper bound of `cos(π/(4q))` — half the fillet quantum -/
def cosDocLo (q : Int) : Rat := cosPiLo (1 / (4 * (tableQ q : Rat)))
def cosDocHi (q : Int) : Rat := cosPiHi (1 / (4 * (tableQ q : Rat)))
/-- lower bound of `cos(3π/(8q))` — three quarters of the quantum, the supremum of half the angular step
(`fillet_step_bound`: step < 1.5·quantum) -/
def cosStepLo (q : Int) : Rat := cosPiLo (3 / (8 * (tableQ q : Rat)))

/-- documented inner factor `1 − e`, `e = 0.015 + 1 − cos(π/(4q))`, on the safe (small) side -/
def innerDoc (q : Int) : Rat := cosDocLo q - 3 / 200
/-- inner factor that follows from the fillet step bound: `cos(3π/(8q))`, minus the same 1.5 % slack and a 1 %
allowance for input simplification -/
def innerStep (q : Int) : Rat := cosStepLo q - 1 / 40
/-- documented outer factor `1 + 10⁻⁶` -/
def outerDoc : Rat := 1000001 / 1000000
/-- outer factor allowing for the input-line simplification tolerance `d/100` -/
def outerSimp : Rat := 10101 / 10000

/-! ### exact squared distances -/

def qOfRat (r : Rat) : Q := ⟨r.num, r.den⟩
def qMul (a b : Q) : Q := ⟨a.n * b.n, a.d * b.d⟩
def qMin (a b : Q) : Q := if a.le b then a else b

/-- squared distance of `p` to the vertex `v` -/
def d2Pt (p : HPt) (v : Pt) : Q :=
  let dx := p.x - v.x * p.w
  let dy := p.y - v.y * p.w
  ⟨dx * dx + dy * dy, p.w * p.w⟩

/-- `w · (b − a)·(P − a)` -/
def dotH (a b : Pt) (p : HPt) : Int := (b.x - a.x) * (p.x - a.x * p.w) + (b.y - a.y) * (p.y - a.y * p.w)

/-- squared distance of `p` to the closed segment `s` (projection, clamped to the end points) -/
def d2Seg (p : HPt) (s : Seg) : Q :=
  let l := s.sqLen
  if l == 0 then d2Pt p s.p else
  let t := dotH s.p s.q p
  if t ≤ 0 then d2Pt p s.p
  else if t ≥ l * p.w then d2Pt p s.q
  else let d := detH s.p s.q p; ⟨d * d, l * (p.w * p.w)⟩

/-- which side(s) of a directed segment the ideal buffer extends to -/
inductive Side where | both | left | right
deriving DecidableEq, Repr

def Side.opp : Side → Side
  | .both => .both | .left => .right | .right => .left

/-- is the (homogeneous) point on a permitted side of the directed segment (on the line counts)? -/
def Side.allows (sd : Side) (a b : Pt) (p : HPt) : Bool :=
  match sd with
  | .both => true
  | .left => decide (detH a b p ≥ 0)
  | .right => decide (detH a b p ≤ 0)

/-- squared perpendicular distance to `s` when the foot of the perpendicular lies on `s`, at least `√m2` away from
both end points (`shrink = true`, used for must-contain claims) or at most `√m2` beyond them (`shrink = false`,
used for must-exclude claims).  The margin keeps claims away from the knife edge of a flat cap. -/
def d2Slab (p : HPt) (s : Seg) (m2 : Q) (shrink : Bool) : Option Q :=
  let l := s.sqLen
  if l == 0 then none else
  let t := dotH s.p s.q p            -- w·along·√l
  let t' := l * p.w - t
  let lim := m2.n * l * (p.w * p.w)  -- compare  t²·m2.d  with  m2.n·l·w²
  let far (u : Int) : Bool := decide (u ≥ 0) && decide (u * u * m2.d ≥ lim)        -- at least the margin inside
  let near (u : Int) : Bool := decide (u ≥ 0) || decide (u * u * m2.d ≤ lim)       -- at most the margin outside
  let ok := if shrink then far t && far t' else near t && near t'
  if ok then let d := detH s.p s.q p; some ⟨d * d, l * (p.w * p.w)⟩ else none

/-! ### features of an input under a configuration -/

/-- a segment with the side(s) on which the offset curve is generated -/
structure SSeg where
  s : Seg
  side : Side
deriving Repr

/-- a circular sector of the ideal buffer: centre `v`, all `p` with `(p − v)·h ≥ 0` for every `h` in `hs` -/
structure Wedge where
  v : Pt
  hs : List Pt
deriving Repr

def Wedge.has (w : Wedge) (p : HPt) : Bool :=
  w.hs.all fun h => decide ((p.x - w.v.x * p.w) * h.x + (p.y - w.v.y * p.w) * h.y ≥ 0)

structure Feat where
  segs : List SSeg := []
  /-- every vertex of the input (for the plain distance) -/
  verts : List Pt := []
  /-- sectors of radius `d` the ideal buffer contains: outside of round joins, round / square caps, points -/
  wedges : List Wedge := []
  /-- vertices at which a join is built (it stays within `fJoin·d` of the vertex) -/
  joinV : List Pt := []
  /-- open line ends and points whose cap stays within `fCap·d` of the vertex (none for flat caps) -/
  capV : List Pt := []
  polys : List (List (List Pt)) := []
deriving Repr

def dedupAdj : List Pt → List Pt
  | a :: b :: r => if a == b then dedupAdj (b :: r) else a :: dedupAdj (b :: r)
  | l => l

def Feat.append (a b : Feat) : Feat :=
  ⟨a.segs ++ b.segs, a.verts ++ b.verts, a.wedges ++ b.wedges, a.joinV ++ b.joinV, a.capV ++ b.capV, a.polys ++ b.polys⟩

def vsub (a b : Pt) : Pt := ⟨a.x - b.x, a.y - b.y⟩

def featPoint (cap : Cap) (p : Pt) : Feat :=
  let on := cap == .round || cap == .square
  { verts := [p], wedges := if on then [⟨p, []⟩] else [], capV := if on then [p] else [] }

/-- the join sectors of consecutive vertex triples `u, v, w`: outside of the turn at `v` -/
def joinWedges : List Pt → List Wedge
  | u :: v :: w :: r => ⟨v, [vsub v u, vsub v w]⟩ :: joinWedges (v :: w :: r)
  | _ => []

/-- a closed ring (first = last, repeated points removed): the sectors at every vertex, cyclically -/
def ringWedges (r : List Pt) : List Wedge :=
  match r with
  | _ :: second :: _ => joinWedges (r ++ [second])
  | _ => []

/-- `side`: where the offset curve of this ring is generated -/
def featRingSided (join : Join) (side : Side) (r : List Pt) : Feat :=
  let r := dedupAdj r
  { segs := (segsOf r).map (⟨·, side⟩), verts := r, wedges := if join == .round then ringWedges r else [], joinV := r }

/-- side of a polygon ring on which the polygon's interior lies -/
def interiorSide (isHole : Bool) (r : List Pt) : Side :=
  let ccw := area2 r > 0
  if ccw != isHole then .left else .right

/-- rings of one polygon (shell first); `outward = true`: offset away from the interior (positive distance) -/
def featPolygon (join : Join) (outward : Bool) (rings : List (List Pt)) : Feat :=
  match rings with
  | [] => {}
  | shell :: holes =>
    let sd (isHole : Bool) (r : List Pt) : Side := if outward then (interiorSide isHole r).opp else interiorSide isHole r
    holes.foldl (fun acc h => acc.append (featRingSided join (sd true h) h)) (featRingSided join (sd false shell) shell)

/-- `BufferCurveSetBuilder::addLineString`: repeated points removed; a closed line of ≥ 4 points is offset as a
ring (no caps) unless the buffer is single-sided; a line that collapses to one point is buffered as a point -/
def featLine (cap : Cap) (join : Join) (singleSided : Bool) (l : List Pt) : Feat :=
  let l := dedupAdj l
  match l with
  | [] => {}
  | [p] => featPoint cap p
  | first :: rest =>
    let last := rest.getLast?.getD first
    if l.length ≥ 4 && first == last && !singleSided then featRingSided join .both l
    else
      let inner := rest.dropLast
      let ends := [first, last]
      let capOn := cap == .round || cap == .square
      let second := rest.head?.getD first
      let penult := (l.dropLast).getLast?.getD last
      { segs := (segsOf l).map (⟨·, .both⟩), verts := l,
        wedges := (if join == .round then joinWedges l else []) ++
                  (if capOn then [⟨first, [vsub first second]⟩, ⟨last, [vsub last penult]⟩] else []),
        joinV := inner, capV := if capOn then ends else [] }

def featOf (cap : Cap) (join : Join) (singleSided : Bool) (f : Flat) : Feat :=
  let a := f.pts.foldl (fun acc p => acc.append (featPoint cap p)) ({} : Feat)
  let b := f.lines.foldl (fun acc l => acc.append (featLine cap join singleSided l)) a
  let c := f.polys.foldl (fun acc rings => acc.append (featPolygon join true rings)) b
  { c with polys := f.polys }

/-- only the polygons, offset towards the interior (negative and zero distances ignore points and lines) -/
def featPolys (join : Join) (f : Flat) : Feat :=
  let c := f.polys.foldl (fun acc rings => acc.append (featPolygon join false rings)) ({} : Feat)
  { c with polys := f.polys }

/-! ### the clauses -/

def Feat.inside (F : Feat) (p : HPt) : Bool := F.polys.any (inPolyH p)
def Feat.onBoundary (F : Feat) (p : HPt) : Bool := F.segs.any fun s => onSegH s.s.p s.s.q p

/-- some feature of the ideal buffer of radius `√r2` covers `p` -/
def Feat.covered (F : Feat) (p : HPt) (r2 m2 : Q) : Bool :=
  (F.segs.any fun s => s.side.allows s.s.p s.s.q p &&
    (match d2Slab p s.s m2 true with | some d => d.le r2 | none => false)) ||
  (F.wedges.any fun w => (d2Pt p w.v).le r2 && w.has p)

/-- no feature of the ideal buffer of radius `√r2` (joins up to `√(fJoin2·r2)`, caps up to `√(fCap2·r2)`) reaches `p` -/
def Feat.clear (F : Feat) (p : HPt) (r2 m2 fJoin2 fCap2 : Q) : Bool :=
  (F.segs.all fun s => match d2Slab p s.s m2 false with | some d => r2.le d | none => true) &&
  (F.joinV.all fun v => (qMul fJoin2 r2).le (d2Pt p v)) &&
  (F.capV.all fun v => (qMul fCap2 r2).le (d2Pt p v))

/-- plain squared distance to the linework and points of the input (polygon interiors not considered) -/
def Feat.dist2 (F : Feat) (p : HPt) : Option Q :=
  let ds := F.segs.map (fun s => d2Seg p s.s) ++ F.verts.map (d2Pt p)
  match ds with
  | [] => none
  | d :: r => some (r.foldl qMin d)

/-- what the specification says about a location -/
inductive Verdict where | mustIn | mustOut | free
deriving DecidableEq, Repr

/-- positive distance: `rIn2 = ((1−e)d)²` (`none` when the inner radius is not positive), `rOut2 = ((1+10⁻⁶)d)²` -/
def verdictPos (F : Feat) (p : HPt) (rIn2 : Option Q) (rOut2 m2 fJoin2 fCap2 : Q) : Verdict :=
  if F.inside p then .mustIn
  else if (match rIn2 with | some r => F.covered p r m2 | none => false) then .mustIn
  else if F.clear p rOut2 m2 fJoin2 fCap2 then .mustOut
  else .free

/-- negative distance on polygons (`F = featPolys`): inside and farther than `rOut` from every ring → in;
outside, or within `rIn` of a ring (`nearOut`, only sound when the polygons do not overlap) → out -/
def verdictNeg (F : Feat) (p : HPt) (rIn2 : Option Q) (rOut2 m2 fJoin2 : Q) (nearOut : Bool) : Verdict :=
  if F.onBoundary p then (if nearOut then .mustOut else .free)     -- a ring of one polygon may run inside another one
  else if !F.inside p then .mustOut
  else if F.clear p rOut2 m2 fJoin2 ⟨1, 1⟩ then .mustIn
  else if nearOut && (match rIn2 with | some r => F.covered p r m2 | none => false) then .mustOut
  else .free

/-- zero distance: the point set of the polygons; locations within `√m2` of a ring are left free (the result is
re-noded, its vertices are rounded) -/
def verdictZero (F : Feat) (p : HPt) (m2 : Q) : Verdict :=
  if F.onBoundary p then .free
  else if !F.clear p m2 m2 ⟨1, 1⟩ ⟨1, 1⟩ then .free
  else if F.inside p then .mustIn else .mustOut

/-! ### membership in the returned polygonal geometry -/

inductive Where where | inside | outside | boundary
deriving DecidableEq, Repr

def locateResult (polys : List (List (List Pt))) (p : HPt) : Where :=
  if polys.any (fun rings => rings.any fun r => (edges r).any fun e => onSegH e.1 e.2 p) then .boundary
  else if polys.any (inPolyH p) then .inside else .outside

end GeosModel.Buffer
