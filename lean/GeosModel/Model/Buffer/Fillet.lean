/-!
# C06 CORE 1 — the segment-count / angular-step logic of `OffsetSegmentGenerator::addDirectedFillet`

```
filletAngleQuantum = PI_OVER_2 / max(quadSegs, 1)            (constructor)
totalAngle = fabs(startAngle - endAngle)
nSegs      = (int)(totalAngle / filletAngleQuantum + 0.5)
if (nSegs < 1) return;                                        // no intermediate vertex
angleInc   = totalAngle / nSegs
for (i = 0; i < nSegs; i++) emit  startAngle + dir * i * angleInc
```
(the caller adds the arc's end point after the loop, so the last gap is `totalAngle - (nSegs-1)*angleInc = angleInc`).

Angles are modelled as exact rationals **in units of the quantum**: `t = totalAngle / quantum ≥ 0`.  No
trigonometry is needed for the counting logic.  Core Lean only.
-/
namespace GeosModel.Buffer

/-- the clamp of the constructor: `if (quadSegs < 1) quadSegs = 1` -/
def quadSegsEff (q : Int) : Int := if q < 1 then 1 else q

/-- the quantum in units of a quarter turn (`π/2`) -/
def quantumQ (q : Int) : Rat := 1 / (quadSegsEff q : Rat)

/-- C++ `(int) x` for a double in `int` range: truncation toward zero -/
def truncToInt (x : Rat) : Int := if 0 ≤ x then x.floor else -((-x).floor)

/-- `nSegs = (int)(t + 0.5)` -/
def nSegs (t : Rat) : Int := truncToInt (t + 1 / 2)

/-- `angleInc / quantum = t / nSegs` (only used when `nSegs ≥ 1`) -/
def stepQ (t : Rat) : Rat := t / (nSegs t : Rat)

/-- offsets (from the start angle, in quanta, in the turning direction) of the vertices the loop emits;
the first one (`i = 0`) repeats the arc's start point -/
def filletOffsets (t : Rat) : List Rat :=
  if nSegs t < 1 then [] else (List.range (nSegs t).toNat).map fun (i : Nat) => (i : Rat) * stepQ t

/-- the successive angular gaps of the finished arc: between emitted vertices, then up to the end point -/
def filletGaps (t : Rat) : List Rat :=
  match filletOffsets t with
  | [] => [t]
  | o :: os => ((o :: os).zip (os ++ [t])).map fun (a, b) => b - a

/-- number of *intermediate* vertices the fillet adds between the arc's start and end point
(the `i = 0` vertex coincides with the start point and is dropped by the vertex list) -/
def filletInterior (t : Rat) : Nat := (nSegs t).toNat - 1

/-- the same in terms of the real inputs: total angle `a` in quarter turns, raw quadrant-segment parameter `q` -/
def nSegsOf (q : Int) (a : Rat) : Int := nSegs (a / quantumQ q)

end GeosModel.Buffer
