import GeosModel.Base.F64
import GeosModel.Model.Buffer.Fillet
/-!
# C06 CORE 2 — buffer parameter normalisation exactly as the code does it

Sources: `capi/geos_ts_c.cpp` (`GEOSBuffer_r`, `GEOSBufferWithStyle_r`, `GEOSBufferWithParams_r`,
`GEOSBufferParams_set*_r`, `GEOSOffsetCurve_r`, `GEOSSingleSidedBuffer_r`), `BufferParameters.{h,cpp}`,
`OffsetCurve.h` (constructor), `OffsetSegmentGenerator.cpp` (constructor, `addLineEndCap`, `addOutsideTurn`,
`addCollinear`), `OffsetCurveBuilder.cpp::computePointCurve`, `BufferBuilder::bufferLineSingleSided`.

What the code really does (and the model mirrors):
* `setQuadrantSegments` stores **any** `int`; the generator uses `max(q, 1)` for the fillet quantum, but tests the
  *raw* value `q >= 8` (and the raw join value `== JOIN_ROUND`) to pick the closing-segment factor 80 instead of 1.
  `OffsetCurve` replaces `q < 8` by 8.
* cap / join styles are C `int`s cast to the enum after the test `style < 1 || style > 3 → IllegalArgumentException`
  (the lower test was added by /repo commit 1591a29d6 "fix: C API must reject buffer join / end-cap styles below 1";
  before it 0 and negative values were stored and `GEOSBufferWithStyle(line, d, 8, /*cap*/0, 1, 5)` returned POLYGON
  EMPTY).  The generator compares with the three legal constants: a join that is neither MITRE(2) nor BEVEL(3) behaves
  as ROUND; a cap that is none of 1,2,3 would add *no cap vertices at all* (`switch` without default) and give an empty
  curve for points — `effJoin` / `effCap` keep modelling that, `params_total` shows it is unreachable through the C API.
* the mitre limit is stored unchecked (NaN, negative, infinite included).
* `setSingleSided(ss != 0)`; `GEOSSingleSidedBuffer` forces `CAP_FLAT`, `leftSide != 0`.
Core Lean only.
-/
namespace GeosModel.Buffer

/-- `BufferParameters` as stored (enum members hold whatever `int` was cast into them) -/
structure Config where
  quadSegs : Int := 8
  endCap : Int := 1
  join : Int := 1
  mitre : UInt64 := 0x4014000000000000      -- 5.0
  singleSided : Bool := false
deriving DecidableEq, Repr

def Config.default : Config := {}

/-- outcome of a C API call that configures parameters: `none` = the call failed with IllegalArgumentException -/
abbrev Outcome := Option Config

def setQuadrantSegments (c : Config) (q : Int) : Outcome := some { c with quadSegs := q }
def setEndCapStyle (c : Config) (s : Int) : Outcome := if s < 1 ∨ s > 3 then none else some { c with endCap := s }
def setJoinStyle (c : Config) (s : Int) : Outcome := if s < 1 ∨ s > 3 then none else some { c with join := s }
def setMitreLimit (c : Config) (m : UInt64) : Outcome := some { c with mitre := m }
def setSingleSided (c : Config) (ss : Int) : Outcome := some { c with singleSided := ss != 0 }

/-- one setter call on a `GEOSBufferParams` object -/
inductive Setter where
  | quad (q : Int) | cap (s : Int) | join (s : Int) | mitre (m : UInt64) | single (ss : Int)
deriving Repr

def Setter.apply (c : Config) : Setter → Outcome
  | .quad q => setQuadrantSegments c q
  | .cap s => setEndCapStyle c s
  | .join s => setJoinStyle c s
  | .mitre m => setMitreLimit c m
  | .single s => setSingleSided c s

/-- a failed setter leaves the object unchanged (the exception is thrown before the store); returns the
object after the whole sequence and the list of return codes (1 = ok, 0 = error) -/
def runSetters (c : Config) : List Setter → Config × List Bool
  | [] => (c, [])
  | s :: r =>
    match s.apply c with
    | some c' => let (cf, rs) := runSetters c' r; (cf, true :: rs)
    | none => let (cf, rs) := runSetters c r; (cf, false :: rs)

/-- the entry points of the C API -/
inductive Entry where
  | buffer (q : Int)
  | withStyle (q cap join : Int) (mitre : UInt64)
  | withParams (cfg : Config)
  | offsetCurve (q join : Int) (mitre : UInt64)
  | singleSidedBuffer (q join : Int) (mitre : UInt64) (leftSide : Int)
deriving Repr

/-- the `BufferParameters` the operation finally runs with -/
def Entry.config : Entry → Outcome
  | .buffer q => some { Config.default with quadSegs := q }           -- Geometry::buffer(d, q): CAP_ROUND
  | .withStyle q cap join m =>
    -- order of the tests in GEOSBufferWithStyle_r
    if cap < 1 ∨ cap > 3 then none else if join < 1 ∨ join > 3 then none
    else some { quadSegs := q, endCap := cap, join := join, mitre := m, singleSided := false }
  | .withParams c => some c
  | .offsetCurve q join m =>
    if join < 1 ∨ join > 3 then none
    else some { quadSegs := if q < 8 then 8 else q, endCap := 1, join := join, mitre := m, singleSided := false }
  | .singleSidedBuffer q join m _ =>
    if join < 1 ∨ join > 3 then none
    else some { quadSegs := q, endCap := 2, join := join, mitre := m, singleSided := false }

/-- which side `GEOSSingleSidedBuffer` offsets -/
def leftSideOf (leftSide : Int) : Bool := leftSide != 0

/-! ### what the generator does with a stored configuration -/

inductive Join where | round | mitre | bevel
deriving DecidableEq, Repr
inductive Cap where | round | flat | square | none
deriving DecidableEq, Repr

def effJoin (j : Int) : Join := if j == 2 then .mitre else if j == 3 then .bevel else .round
def effCap (s : Int) : Cap := if s == 1 then .round else if s == 2 then .flat else if s == 3 then .square else .none
def Config.effQuad (c : Config) : Int := quadSegsEff c.quadSegs
/-- `closingSegLengthFactor` -/
def Config.closingFactor (c : Config) : Int := if c.quadSegs ≥ 8 ∧ c.join = 1 then 80 else 1

/-- a configuration the documentation allows -/
def Config.Legal (c : Config) : Prop := 1 ≤ c.endCap ∧ c.endCap ≤ 3 ∧ 1 ≤ c.join ∧ c.join ≤ 3
instance (c : Config) : Decidable c.Legal := by unfold Config.Legal; exact inferInstance

/-! ### observable consequences used by the correspondence stream `params` -/

inductive MitreKind where | nan | apex | limited
deriving DecidableEq, Repr

/-- for the right-angle probe: is the mitre apex (at `√2·d` from the corner) within `limit·d`?  (`limit² ≥ 2`) -/
def mitreKind (m : UInt64) : MitreKind :=
  match F64.decode m with
  | .nan => .nan
  | .inf neg => if neg then .limited else .apex
  | .fin neg mant e =>
    if neg then .limited
    else
      -- mant² · 2^(2e) ≥ 2
      let sq : Nat := mant * mant
      if e ≥ 0 then (if sq * 2 ^ (2 * e).toNat ≥ 2 then .apex else .limited)
      else (if sq ≥ 2 * 2 ^ (2 * (-e)).toNat then .apex else .limited)

/-- number of coordinates of the buffer ring of a single point (0 = empty result) -/
def pointProbe (c : Config) : Nat :=
  match effCap c.endCap with
  | .round => 4 * c.effQuad.toNat + 1
  | .square => 5
  | _ => 0

/-- number of vertices the join contributes at the outside of a right-angle turn, *including* the two offset
segment end points; `none` = the operation throws (NaN mitre limit) -/
def cornerProbe (c : Config) : Option Nat :=
  match effJoin c.join with
  | .round => some (c.effQuad.toNat + 1)      -- t = q quanta, nSegs = q, q − 1 interior vertices
  | .bevel => some 2
  | .mitre => match mitreKind c.mitre with
    | .nan => none
    | .apex => some 1
    | .limited => some 2

end GeosModel.Buffer
