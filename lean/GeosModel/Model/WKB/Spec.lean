import GeosModel.Model.WKB.Write
import GeosModel.Model.WKB.Read
/-!
Specification side of C09: well-formedness (= the geometry constructors' invariants), the size
hypothesis, and the *value a WKB round trip is expected to return*:

* `docSpec`  — the property's sentence: only the documented exceptions
               (1) a point whose X and Y are NaN is the empty point,
               (2) a linear ring object is written as / read back as a line string,
               (3) the SRID survives iff extended flavour with `includeSRID`,
               (4) a lower output dimension drops exactly the excess ordinates of every sequence;
* `canon`    — what the code really does: the above *plus* the normalisations found while modelling
               (rings of a polygon / sections of a compound curve are promoted to the union of the
               Z/M flags of their parent; an empty polygon / curve polygon loses its holes, and an
               empty curve polygon's shell becomes an empty linear ring).
Core Lean only.
-/
namespace GeosModel.WKB
open GeosModel

/-! ### well-formedness -/

def errOk : Except Err Unit → Bool
  | .ok _ => true
  | .error _ => false

mutual
  /-- the invariants established by the constructors of the 13 geometry classes (typed containers
  included): what every `Geometry` object satisfies -/
  def WFG (arc : ArcOracle) : G → Bool
    | .point s => s.pts.length ≤ 1
    | .lineString s => lineOK s
    | .linearRing s => lineOK s && ringOK s
    | .circularString s => circOK arc s
    | .polygon sh hs =>
      (lineOK sh && ringOK sh) && hs.all (fun r => lineOK r && ringOK r)
        && !(sh.pts.isEmpty && hs.any (fun r => !r.pts.isEmpty))
    | .compoundCurve gs => gs.all isSimpleCurve && WFGs arc gs && errOk (checkContig gs)
    | .curvePolygon gs =>
      gs.all isCurve && WFGs arc gs &&
        (match gs with
         | [] => true
         | sh :: hs => !(gIsEmpty sh && hs.any (fun r => !gIsEmpty r)))
    | .multiPoint gs => gs.all isPoint && WFGs arc gs
    | .multiLineString gs => gs.all isLineString && WFGs arc gs
    | .multiPolygon gs => gs.all isPolygon && WFGs arc gs
    | .collection gs => WFGs arc gs
    | .multiCurve gs => gs.all isCurve && WFGs arc gs
    | .multiSurface gs => gs.all isSurface && WFGs arc gs
  def WFGs (arc : ArcOracle) : List G → Bool
    | [] => true
    | g :: gs => WFG arc g && WFGs arc gs
end

mutual
  /-- every element count fits the 32-bit count word -/
  def Fits : G → Bool
    | .point _ => true
    | .lineString s => s.pts.length < 4294967296
    | .linearRing s => s.pts.length < 4294967296
    | .circularString s => s.pts.length < 4294967296
    | .polygon sh hs => sh.pts.length < 4294967296 && hs.all (fun r => r.pts.length < 4294967296)
        && hs.length + 1 < 4294967296
    | .compoundCurve gs => gs.length < 4294967296 && FitsL gs
    | .curvePolygon gs => gs.length < 4294967296 && FitsL gs
    | .multiPoint gs => gs.length < 4294967296 && FitsL gs
    | .multiLineString gs => gs.length < 4294967296 && FitsL gs
    | .multiPolygon gs => gs.length < 4294967296 && FitsL gs
    | .collection gs => gs.length < 4294967296 && FitsL gs
    | .multiCurve gs => gs.length < 4294967296 && FitsL gs
    | .multiSurface gs => gs.length < 4294967296 && FitsL gs
  def FitsL : List G → Bool
    | [] => true
    | g :: gs => Fits g && FitsL gs
end

/-- the SRID is a C `int` -/
def sridFits (i : Int) : Bool := decide (-2147483648 ≤ i) && decide (i < 2147483648)

/-! ### masking / dropping ordinates -/

def maskC (z m : Bool) (p : Coord) : Coord :=
  ⟨p.x, p.y, if z then p.z else nanBits, if m then p.m else nanBits⟩

/-- the sequence re-declared with flags `(z, m)`; ordinates outside the flags are NaN -/
def maskS (z m : Bool) (s : CSeq) : CSeq := ⟨z, m, s.pts.map (maskC z m)⟩

/-- a sequence cut down to output dimension `d` according to its own flags -/
def ownS (d : Nat) (s : CSeq) : CSeq :=
  maskS (outOrd d s.hasZ s.hasM).1 (outOrd d s.hasZ s.hasM).2 s

mutual
  /-- "exactly the excess ordinates dropped": every sequence keeps X, Y and drops M, then Z, until
  at most `d` ordinates remain -/
  def dropDimsG (d : Nat) : G → G
    | .point s => .point (ownS d s)
    | .lineString s => .lineString (ownS d s)
    | .linearRing s => .linearRing (ownS d s)
    | .circularString s => .circularString (ownS d s)
    | .polygon sh hs => .polygon (ownS d sh) (hs.map (ownS d))
    | .compoundCurve gs => .compoundCurve (dropDimsGs d gs)
    | .curvePolygon gs => .curvePolygon (dropDimsGs d gs)
    | .multiPoint gs => .multiPoint (dropDimsGs d gs)
    | .multiLineString gs => .multiLineString (dropDimsGs d gs)
    | .multiPolygon gs => .multiPolygon (dropDimsGs d gs)
    | .collection gs => .collection (dropDimsGs d gs)
    | .multiCurve gs => .multiCurve (dropDimsGs d gs)
    | .multiSurface gs => .multiSurface (dropDimsGs d gs)
  def dropDimsGs (d : Nat) : List G → List G
    | [] => []
    | g :: gs => dropDimsG d g :: dropDimsGs d gs
end

def dropDims (d : Nat) (g : Geom) : Geom := ⟨g.srid, dropDimsG d g.g⟩

/-! ### what the code returns -/

/-- a compound-curve section after the round trip: parent's flags, ring becomes line string -/
def canonSec (z m : Bool) : G → G
  | .lineString s => .lineString (maskS z m s)
  | .linearRing s => .lineString (maskS z m s)
  | .circularString s => .circularString (maskS z m s)
  | g => g

mutual
  /-- the tree `read (write ⟨d, …⟩ g)` returns -/
  def canonG (d : Nat) : G → G
    | .point s => pointOfSeq (ownS d s)
    | .lineString s => .lineString (ownS d s)
    | .linearRing s => .lineString (ownS d s)
    | .circularString s => .circularString (ownS d s)
    | .polygon sh hs =>
      let z := (outOrd d (sh.hasZ || hs.any (·.hasZ)) (sh.hasM || hs.any (·.hasM))).1
      let m := (outOrd d (sh.hasZ || hs.any (·.hasZ)) (sh.hasM || hs.any (·.hasM))).2
      if sh.pts.isEmpty then .polygon ⟨z, m, []⟩ [] else .polygon (maskS z m sh) (hs.map (maskS z m))
    | .compoundCurve gs =>
      let z := (outOrd d (anySeqs (·.hasZ) gs) (anySeqs (·.hasM) gs)).1
      let m := (outOrd d (anySeqs (·.hasZ) gs) (anySeqs (·.hasM) gs)).2
      .compoundCurve (gs.map (canonSec z m))
    | .curvePolygon gs =>
      let z := (outOrd d (anySeqs (·.hasZ) gs) (anySeqs (·.hasM) gs)).1
      let m := (outOrd d (anySeqs (·.hasZ) gs) (anySeqs (·.hasM) gs)).2
      if gIsEmpty (.curvePolygon gs) then .curvePolygon [.linearRing ⟨z, m, []⟩] else .curvePolygon (canonGs d gs)
    | .multiPoint gs => .multiPoint (canonGs d gs)
    | .multiLineString gs => .multiLineString (canonGs d gs)
    | .multiPolygon gs => .multiPolygon (canonGs d gs)
    | .collection gs => .collection (canonGs d gs)
    | .multiCurve gs => .multiCurve (canonGs d gs)
    | .multiSurface gs => .multiSurface (canonGs d gs)
  def canonGs (d : Nat) : List G → List G
    | [] => []
    | g :: gs => canonG d g :: canonGs d gs
end

/-- SRID after the round trip -/
def sridOut (c : Cfg) (srid : Int) : Int := if c.flavor = .ext ∧ c.srid = true then srid else 0

def canon (c : Cfg) (g : Geom) : Geom := ⟨sridOut c g.srid, canonG c.dims g.g⟩

/-! ### what the property's sentence promises -/

mutual
  /-- documented exceptions (1) and (2) and nothing else -/
  def docG : G → G
    | .point s => pointOfSeq s
    | .lineString s => .lineString s
    | .linearRing s => .lineString s
    | .circularString s => .circularString s
    | .polygon sh hs => .polygon sh hs
    | .compoundCurve gs => .compoundCurve (docGs gs)
    | .curvePolygon gs => if gIsEmpty (.curvePolygon gs) then .curvePolygon gs else .curvePolygon (docGs gs)
    | .multiPoint gs => .multiPoint (docGs gs)
    | .multiLineString gs => .multiLineString (docGs gs)
    | .multiPolygon gs => .multiPolygon (docGs gs)
    | .collection gs => .collection (docGs gs)
    | .multiCurve gs => .multiCurve (docGs gs)
    | .multiSurface gs => .multiSurface (docGs gs)
  def docGs : List G → List G
    | [] => []
    | g :: gs => docG g :: docGs gs
end

/-- the round-trip value the property's sentence promises for writer configuration `c` -/
def docSpec (c : Cfg) (g : Geom) : Geom := dropDims c.dims ⟨sridOut c g.srid, docG g.g⟩

mutual
  /-- every point whose X and Y are NaN consists of the canonical NaN in all four slots (the bytes the
  writer emits for POINT EMPTY); for any other NaN/NaN point the re-read geometry is the empty point and
  re-writing it cannot reproduce the original payload bits or Z/M values -/
  def NanPtCanon : G → Bool
    | .point s => s.pts.all (fun p => !(isNaNBits p.x && isNaNBits p.y) || decide (p = nanCoord))
    | .compoundCurve gs => NanPtCanonL gs
    | .curvePolygon gs => NanPtCanonL gs
    | .multiPoint gs => NanPtCanonL gs
    | .multiLineString gs => NanPtCanonL gs
    | .multiPolygon gs => NanPtCanonL gs
    | .collection gs => NanPtCanonL gs
    | .multiCurve gs => NanPtCanonL gs
    | .multiSurface gs => NanPtCanonL gs
    | _ => true
  def NanPtCanonL : List G → Bool
    | [] => true
    | g :: gs => NanPtCanon g && NanPtCanonL gs
end

/-! ### inputs on which the code keeps the promise -/

def sameFlags (a b : CSeq) : Bool := a.hasZ == b.hasZ && a.hasM == b.hasM

mutual
  /-- "plain" trees: every sequence is canonical for its flags; the rings of a polygon (sections of a
  compound curve) all carry the same Z/M flags; an empty polygon has no holes; an empty curve
  polygon is the one the factory makes (an empty linear ring as shell, nothing else) -/
  def Plain : G → Bool
    | .point s => s.canon
    | .lineString s => s.canon
    | .linearRing s => s.canon
    | .circularString s => s.canon
    | .polygon sh hs =>
      sh.canon && hs.all (·.canon) && hs.all (sameFlags sh) && (!sh.pts.isEmpty || hs.isEmpty)
    | .compoundCurve gs =>
      PlainL gs && (match gs with
        | [] => true
        | g :: rest => rest.all (fun h => sameFlags (seqOf g) (seqOf h)))
    | .curvePolygon gs =>
      PlainL gs && (!gIsEmpty (.curvePolygon gs) ||
        (match gs with
         | [.linearRing s] => s.pts.isEmpty
         | _ => false))
    | .multiPoint gs => PlainL gs
    | .multiLineString gs => PlainL gs
    | .multiPolygon gs => PlainL gs
    | .collection gs => PlainL gs
    | .multiCurve gs => PlainL gs
    | .multiSurface gs => PlainL gs
  def PlainL : List G → Bool
    | [] => true
    | g :: gs => Plain g && PlainL gs
end

end GeosModel.WKB
