import GeosModel.Model.WKB.Read
import GeosModel.Model.WKB.Write
/-!
# C09 — the vocabulary the regenerated WKB decision functions are stated in

`translate/specs/wkb_words.py` regenerates the type-word / SRID / size-guard arithmetic of `WKBWriter.cpp` and
`WKBReader.cpp` into `Generated/WkbWords.lean`.  That code talks about things the hand-written model
(`Basic.lean`, `Write.lean`, `Read.lean`) has inlined: the `GeometryTypeId` of a geometry, C++ `int` bit operations,
the `OrdinateSet` value class, the per-type unit of `WKBReader::minMemSize`.  They are named here so that the bridge
theorems (`Props/C09Gen.lean`) and the theorems tying them to `writeG` / `readBody` (`Props/C09.lean`) have something
to be about.  Core Lean only.
-/
namespace GeosModel.WKB
open GeosModel

/-- `geom::GeometryTypeId` (Geometry.h) -/
inductive TypeId where
  | point | lineString | linearRing | polygon | multiPoint | multiLineString | multiPolygon | collection
  | circularString | compoundCurve | curvePolygon | multiCurve | multiSurface
deriving DecidableEq, Repr, Inhabited

/-- `Geometry::getGeometryTypeId()` of a tree -/
def typeIdOf : G → TypeId
  | .point _ => .point
  | .lineString _ => .lineString
  | .linearRing _ => .linearRing
  | .circularString _ => .circularString
  | .polygon _ _ => .polygon
  | .compoundCurve _ => .compoundCurve
  | .curvePolygon _ => .curvePolygon
  | .multiPoint _ => .multiPoint
  | .multiLineString _ => .multiLineString
  | .multiPolygon _ => .multiPolygon
  | .collection _ => .collection
  | .multiCurve _ => .multiCurve
  | .multiSurface _ => .multiSurface

/-- the WKB type code `WKBWriter::getWkbType` gives a geometry of this type id (a linear ring is written as a line
string: one of the two documented exceptions of the property) -/
def wkbCode : TypeId → Nat
  | .point => 1
  | .lineString => 2
  | .linearRing => 2
  | .polygon => 3
  | .multiPoint => 4
  | .multiLineString => 5
  | .multiPolygon => 6
  | .collection => 7
  | .circularString => 8
  | .compoundCurve => 9
  | .curvePolygon => 10
  | .multiCurve => 11
  | .multiSurface => 12

/-- `WKBConstants::wkbFlavour` (the values are read from WKBConstants.h by the translator on every run) -/
def Flavor.code : Flavor → Int
  | .ext => 1
  | .iso => 2

/-- C++ `a | b` on `int` (two's complement, 32 bit) -/
def int32Or (a b : Int) : Int := u32ToInt (intToU32 a ||| intToU32 b)
/-- C++ `a & b` on `int` -/
def int32And (a b : Int) : Int := u32ToInt (intToU32 a &&& intToU32 b)
/-- `static_cast<int>(u)` of a 32-bit unsigned value (modular since C++20, what every supported compiler did before) -/
def u32AsInt (u : Nat) : Int := u32ToInt (u % 4294967296)

/-- C++ `u << k` on a 32-bit unsigned value -/
def shl32 (u k : Nat) : Nat := (u <<< k) % 4294967296

/-- `ByteOrderValues::ENDIAN_BIG = 0`, `ENDIAN_LITTLE = 1` (read from ByteOrderValues.h by the translator on every run) -/
def Order.code : Order → Int
  | .be => 0
  | .le => 1

/-! ### `io::OrdinateSet` as the pair (hasZ, hasM) — X and Y are always present -/
abbrev OrdSet := Bool × Bool
def OrdSet.hasZ (o : OrdSet) : Bool := o.1
def OrdSet.hasM (o : OrdSet) : Bool := o.2
def OrdSet.setZ (o : OrdSet) (v : Bool) : OrdSet := (v, o.2)
def OrdSet.setM (o : OrdSet) (v : Bool) : OrdSet := (o.1, v)
/-- `OrdinateSet::size()` = `2 + hasZ() + hasM()` -/
def OrdSet.size (o : OrdSet) : Int := 2 + (if o.1 then 1 else 0) + (if o.2 then 1 else 0)

/-! ### `WKBReader::minMemSize` -/

/-- the least number of bytes one announced element of a geometry of this type occupies -/
def minUnit : TypeId → Nat
  | .point | .lineString | .linearRing | .circularString => 16
  | .polygon | .curvePolygon => 4
  | .multiPoint => 21
  | .multiLineString | .multiCurve | .compoundCurve => 9
  | .multiPolygon | .multiSurface => 9
  | .collection => 9

/-- the type id the reader function of a kind passes to `minMemSize` for the count it has just read
(`readCurvePolygon` passes `GEOS_POLYGON`; `readPoint` reads no count) -/
def guardType : Kind → TypeId
  | .point => .point
  | .lineString => .lineString
  | .circularString => .circularString
  | .polygon => .polygon
  | .curvePolygon => .polygon
  | .compoundCurve => .compoundCurve
  | .multiPoint => .multiPoint
  | .multiLineString => .multiLineString
  | .multiPolygon => .multiPolygon
  | .collection => .collection
  | .multiCurve => .multiCurve
  | .multiSurface => .multiSurface

/-- the value `inputDimension` the reader derives from the two flags -/
def inputDim (z m : Bool) : Nat := 2 + toN z + toN m

end GeosModel.WKB
