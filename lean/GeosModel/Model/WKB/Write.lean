import GeosModel.Model.WKB.Basic
/-!
Model of `geos::io::WKBWriter` (src/io/WKBWriter.cpp), function by function.

* `write(g)` recomputes `outputOrdinates` from `g.hasZ()/g.hasM()`; it is entered for the top-level
  geometry, for every element of a collection and for every ring of a curve polygon — but *not* for
  the rings of a polygon nor for the sections of a compound curve, which are written with the
  ordinate set of their parent.
* `includeSRID` is switched off while the elements of a collection / the sections of a compound
  curve are written.  The rings of a curve polygon keep it, but carry SRID 0 (only
  `GeometryCollection::setSRID` propagates), so no nested header ever carries an SRID.  Here the
  "effective SRID" `e` (0 = none) is passed down instead.
* an `int` is written as its low 32 bits (`static_cast<int>(size_t)`).
Core Lean only.
-/
namespace GeosModel.WKB
open GeosModel

/-- `writeGeometryType`'s word -/
def typeWord (f : Flavor) (oz om : Bool) (code : Nat) (e : Int) : Nat :=
  match f with
  | .ext => code + (if oz then 2147483648 else 0) + (if om then 1073741824 else 0) + (if e ≠ 0 then 536870912 else 0)
  | .iso => code + (if oz then 1000 else 0) + (if om then 2000 else 0)

/-- `writeByteOrder; writeGeometryType; writeSRID` -/
def header (c : Cfg) (oz om : Bool) (code : Nat) (e : Int) : List UInt8 :=
  c.order.byte :: (putU32 c.order (typeWord c.flavor oz om code e)
    ++ (if c.flavor = .ext ∧ e ≠ 0 then putU32 c.order (intToU32 e) else []))

/-- `writeCoordinate` -/
def coordBytes (o : Order) (oz om : Bool) (p : Coord) : List UInt8 :=
  putU64 o p.x ++ putU64 o p.y ++ (if oz then putU64 o p.z else []) ++ (if om then putU64 o p.m else [])

def ptsBytes (o : Order) (oz om : Bool) : List Coord → List UInt8
  | [] => []
  | p :: ps => coordBytes o oz om p ++ ptsBytes o oz om ps

/-- `writeCoordinateSequence(cs, true)` -/
def seqBytes (o : Order) (oz om : Bool) (s : CSeq) : List UInt8 :=
  putU32 o s.pts.length ++ ptsBytes o oz om s.pts

def seqsBytes (o : Order) (oz om : Bool) : List CSeq → List UInt8
  | [] => []
  | s :: ss => seqBytes o oz om s ++ seqsBytes o oz om ss

def nanCoord : Coord := ⟨nanBits, nanBits, nanBits, nanBits⟩

/-- `writeSimpleCurve` called directly from `writeCompoundCurve` (the parent's ordinate set, no SRID) -/
def writeSection (c : Cfg) (oz om : Bool) : G → List UInt8
  | .lineString s => header c oz om 2 0 ++ seqBytes c.order oz om s
  | .linearRing s => header c oz om 2 0 ++ seqBytes c.order oz om s
  | .circularString s => header c oz om 8 0 ++ seqBytes c.order oz om s
  | _ => []

def writeSections (c : Cfg) (oz om : Bool) : List G → List UInt8
  | [] => []
  | g :: gs => writeSection c oz om g ++ writeSections c oz om gs

/-- header and element count of `writeGeometryCollection` -/
def collHeader (c : Cfg) (e : Int) (code : Nat) (gs : List G) : List UInt8 :=
  header c (outOrd c.dims (anySeqs (·.hasZ) gs) (anySeqs (·.hasM) gs)).1
    (outOrd c.dims (anySeqs (·.hasZ) gs) (anySeqs (·.hasM) gs)).2 code e ++ putU32 c.order gs.length

mutual
  /-- `WKBWriter::write(g, os)` with effective SRID `e` -/
  def writeG (c : Cfg) (e : Int) : G → List UInt8
    | .point s =>
      let oz := (outOrd c.dims s.hasZ s.hasM).1
      let om := (outOrd c.dims s.hasZ s.hasM).2
      header c oz om 1 e ++
        (if s.pts.isEmpty then coordBytes c.order oz om nanCoord else ptsBytes c.order oz om s.pts)
    | .lineString s =>
      let oz := (outOrd c.dims s.hasZ s.hasM).1
      let om := (outOrd c.dims s.hasZ s.hasM).2
      header c oz om 2 e ++ seqBytes c.order oz om s
    | .linearRing s =>
      let oz := (outOrd c.dims s.hasZ s.hasM).1
      let om := (outOrd c.dims s.hasZ s.hasM).2
      header c oz om 2 e ++ seqBytes c.order oz om s
    | .circularString s =>
      let oz := (outOrd c.dims s.hasZ s.hasM).1
      let om := (outOrd c.dims s.hasZ s.hasM).2
      header c oz om 8 e ++ seqBytes c.order oz om s
    | .polygon sh hs =>
      let oz := (outOrd c.dims (sh.hasZ || hs.any (·.hasZ)) (sh.hasM || hs.any (·.hasM))).1
      let om := (outOrd c.dims (sh.hasZ || hs.any (·.hasZ)) (sh.hasM || hs.any (·.hasM))).2
      header c oz om 3 e ++
        (if sh.pts.isEmpty then putU32 c.order 0
         else putU32 c.order (hs.length + 1) ++ seqBytes c.order oz om sh ++ seqsBytes c.order oz om hs)
    | .compoundCurve gs =>
      let oz := (outOrd c.dims (anySeqs (·.hasZ) gs) (anySeqs (·.hasM) gs)).1
      let om := (outOrd c.dims (anySeqs (·.hasZ) gs) (anySeqs (·.hasM) gs)).2
      header c oz om 9 e ++ putU32 c.order gs.length ++ writeSections c oz om gs
    | .curvePolygon gs =>
      let oz := (outOrd c.dims (anySeqs (·.hasZ) gs) (anySeqs (·.hasM) gs)).1
      let om := (outOrd c.dims (anySeqs (·.hasZ) gs) (anySeqs (·.hasM) gs)).2
      header c oz om 10 e ++
        (if gIsEmpty (.curvePolygon gs) then putU32 c.order 0 else putU32 c.order gs.length ++ writeGs c gs)
    | .multiPoint gs => collHeader c e 4 gs ++ writeGs c gs
    | .multiLineString gs => collHeader c e 5 gs ++ writeGs c gs
    | .multiPolygon gs => collHeader c e 6 gs ++ writeGs c gs
    | .collection gs => collHeader c e 7 gs ++ writeGs c gs
    | .multiCurve gs => collHeader c e 11 gs ++ writeGs c gs
    | .multiSurface gs => collHeader c e 12 gs ++ writeGs c gs
  /-- the element loop of `writeGeometryCollection` / ring loop of `writeCurvePolygon` -/
  def writeGs (c : Cfg) : List G → List UInt8
    | [] => []
    | g :: gs => writeG c 0 g ++ writeGs c gs
end

/-- the bytes `WKBWriter::write` produces for a geometry with its SRID -/
def write (c : Cfg) (g : Geom) : List UInt8 :=
  writeG c (if c.srid then g.srid else 0) g.g

/-- `WKBWriter::writeHEX` -/
def writeHex (c : Cfg) (g : Geom) : List Char := hexEncode (write c g)

end GeosModel.WKB
