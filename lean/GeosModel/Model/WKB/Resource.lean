import GeosModel.Model.WKB.Read
/-!
Resource accounting for the WKB reader model (C11, WKB part).

* **Recursion depth.**  The fuel argument of `readGeom` *is* the recursion-depth budget: `readGeom fuel`
  answers `error fuel` exactly when the C++ `readGeometry` would have to nest deeper than `fuel` activations.
  `depthNeeded` is therefore expressed through it.
* **Allocation.**  `allocGeom` charges, at the point where the C++ allocates and *before* the children are
  read, `8 × count` bytes for every `std::vector<std::unique_ptr<…>>(count)` (collections, compound curve,
  polygon / curve-polygon holes) and `8 × (2 + hasZ + hasM) × size` for every
  `CoordinateSequence(size, hasZ, hasM)`; it follows the reader's control flow, including the paths that
  end in an exception afterwards (the memory was requested all the same).
Core Lean only.
-/
namespace GeosModel.WKB
open GeosModel

def seqAlloc (z m : Bool) (n : Nat) : Nat := 8 * (2 + toN z + toN m) * n

/-- allocation of `readLineString` / `readLinearRing` / `readCircularString`'s sequence -/
def allocSized (o : Order) (z m : Bool) (bs : List UInt8) : Nat :=
  match readU32 o bs with
  | .error _ => 0
  | .ok (n, bs) => if bs.length < n * 16 then 0 else seqAlloc z m n

def allocRings (o : Order) (z m : Bool) : Nat → List UInt8 → Nat
  | 0, _ => 0
  | n + 1, bs =>
    allocSized o z m bs +
      (match readRing o z m bs with
       | .error _ => 0
       | .ok (_, bs) => allocRings o z m n bs)

/-- the child loop: allocation of each child that is reached -/
def allocN (f : Order → List UInt8 → Except Err (G × Order × List UInt8)) (al : Order → List UInt8 → Nat) :
    Nat → Order → List UInt8 → Nat
  | 0, _, _ => 0
  | n + 1, o, bs =>
    al o bs +
      (match f o bs with
       | .error _ => 0
       | .ok (_, o, bs) => allocN f al n o bs)

def allocColl (rd : Order → List UInt8 → GRes) (al : Order → List UInt8 → Nat) (p : G → Bool) (unit : Nat)
    (h : Hdr) (bs : List UInt8) : Nat :=
  match readU32 h.order bs with
  | .error _ => 0
  | .ok (n, bs) =>
    if bs.length < n * unit then 0
    else 8 * n + allocN (fun o bs => asChild p (rd o bs)) al n h.order bs

def allocBody (rd : Order → List UInt8 → GRes) (al : Order → List UInt8 → Nat) (h : Hdr) (bs : List UInt8) : Nat :=
  match h.kind with
  | .point => if bs.length < 16 then 0 else seqAlloc h.hasZ h.hasM 1
  | .lineString => allocSized h.order h.hasZ h.hasM bs
  | .circularString => allocSized h.order h.hasZ h.hasM bs
  | .polygon =>
    match readU32 h.order bs with
    | .error _ => 0
    | .ok (n, bs) =>
      if bs.length < n * 4 then 0 else
      match n with
      | 0 => 0
      | k + 1 =>
        allocSized h.order h.hasZ h.hasM bs +
          (match readRing h.order h.hasZ h.hasM bs with
           | .error _ => 0
           | .ok (_, bs) => (if k = 0 then 0 else 8 * k) + allocRings h.order h.hasZ h.hasM k bs)
  | .compoundCurve => allocColl rd al isSimpleCurve 9 h bs
  | .curvePolygon =>
    match readU32 h.order bs with
    | .error _ => 0
    | .ok (n, bs) =>
      if bs.length < n * 4 then 0 else
      match n with
      | 0 => 0
      | k + 1 =>
        al h.order bs +
          (match asChild isCurve (rd h.order bs) with
           | .error _ => 0
           | .ok (_, o, bs) =>
             (if k = 0 then 0 else 8 * k) + allocN (fun o bs => asChild isCurve (rd o bs)) al k o bs)
  | .multiPoint => allocColl rd al isPoint 21 h bs
  | .multiLineString => allocColl rd al isLineString 9 h bs
  | .multiPolygon => allocColl rd al isPolygon 9 h bs
  | .collection => allocColl rd al (fun _ => true) 9 h bs
  | .multiCurve => allocColl rd al isCurve 9 h bs
  | .multiSurface => allocColl rd al isSurface 9 h bs

/-- bytes requested from the allocator while `readGeom fuel o bs` runs -/
def allocGeom (arc : ArcOracle) : Nat → Order → List UInt8 → Nat
  | 0, _, _ => 0
  | fuel + 1, o, bs =>
    match readHeader o bs with
    | .error _ => 0
    | .ok (h, bs) => allocBody (readGeom arc fuel) (allocGeom arc fuel) h bs

/-- bytes requested while `read bs` runs -/
def allocOf (arc : ArcOracle) (bs : List UInt8) : Nat := allocGeom arc (bs.length + 1) .le bs

end GeosModel.WKB
