import GeosModel.Model.WKB.Read
/-!
Resource accounting for the WKB reader model (C11, WKB part).

* **Recursion depth.**  The fuel argument of `readGeom` *is* the recursion-depth budget: `readGeom fuel`
  answers `error fuel` exactly when the C++ `readGeometry` would have to nest deeper than `fuel` activations.
  `depthNeeded` is therefore expressed through it.
* **Allocation.**  `allocGeom` follows the reader's control flow, including the paths that end in an exception
  afterwards (the memory was requested all the same), and charges
  * `8 × (2 + hasZ + hasM) × size` for every `CoordinateSequence(size, hasZ, hasM)`, **up front**, at the point where
    `readCoordinateSequence` allocates it: after its `minMemSize(GEOS_LINESTRING, size)` guard (`size × 16 ≤` remaining
    bytes) and before any coordinate is read;
  * `slot = 16` bytes for every child **actually pushed** into a `std::vector<std::unique_ptr<…>>` (collections,
    compound curve, polygon / curve-polygon holes), at the `push_back`, i.e. after that child has been read and
    type-checked.  Since /repo a208e3db7 these vectors start empty and grow by `push_back`; the element count claimed by
    the header only bounds the loop (and is still checked by `minMemSize`), it no longer sizes an allocation.  (Before
    that commit the model charged `8 × count` for `std::vector<…>(count)` before the first child was read, which made
    the allocation quadratic in the input size on nested over-claimed counts.)
  Why 16 and not 8: a pushed `unique_ptr` is 8 bytes, but a vector that grows geometrically holds more than it
  contains — with the doubling policy of libstdc++/libc++ the capacity after any `push_back` is less than twice the
  size.  `16 × pushes` is therefore an upper bound for the bytes the child vectors own at any time after a regrow,
  independent of the exact growth policy as long as its factor is ≤ 2.  Not charged: the old buffer that stays alive
  only while a regrow copies it (transient peak < 24 bytes per element) and the sum of all buffers ever requested
  (< 32 bytes per element); charging those would change the constant of `C11.WKB.alloc_linear` from 4 to 6 resp. 8,
  nothing else.
Core Lean only.
-/
namespace GeosModel.WKB
open GeosModel

def seqAlloc (z m : Bool) (n : Nat) : Nat := 8 * (2 + toN z + toN m) * n

/-- allocation of `readLineString` / `readLinearRing` / `readCircularString`'s sequence -/
def allocSized (o : Order) (z m : Bool) (bs : List UInt8) : Nat :=
  match readU32 o bs with
  | .error _ => 0
  | .ok (n, bs) => if bs.length < n * 16 then 0 else seqAlloc z m n

/-- what one `push_back` into a `std::vector<std::unique_ptr<…>>` is charged: the 8-byte pointer plus up to 8 bytes
of unused capacity of a geometrically growing vector (see the module comment) -/
def slot : Nat := 16

/-- `for (i < n) holes.push_back(readLinearRing())`: the sequence of each ring that is reached, and a slot for each
ring that is read (and accepted by the `LinearRing` constructor) -/
def allocRings (o : Order) (z m : Bool) : Nat → List UInt8 → Nat
  | 0, _ => 0
  | n + 1, bs =>
    allocSized o z m bs +
      (match readRing o z m bs with
       | .error _ => 0
       | .ok (_, bs) => slot + allocRings o z m n bs)

/-- the child loop `for (i < n) v.push_back(readChild<T>())`: allocation of each child that is reached, and a slot
for each child that is read and passes the `dynamic_cast` -/
def allocN (f : Order → List UInt8 → Except Err (G × Order × List UInt8)) (al : Order → List UInt8 → Nat) :
    Nat → Order → List UInt8 → Nat
  | 0, _, _ => 0
  | n + 1, o, bs =>
    al o bs +
      (match f o bs with
       | .error _ => 0
       | .ok (_, o, bs) => slot + allocN f al n o bs)

/-- count, `minMemSize(count × unit)`, then the child loop; the (empty) vector itself costs nothing -/
def allocColl (rd : Order → List UInt8 → GRes) (al : Order → List UInt8 → Nat) (p : G → Bool) (unit : Nat)
    (h : Hdr) (bs : List UInt8) : Nat :=
  match readU32 h.order bs with
  | .error _ => 0
  | .ok (n, bs) =>
    if bs.length < n * unit then 0
    else allocN (fun o bs => asChild p (rd o bs)) al n h.order bs

def allocBody (rd : Order → List UInt8 → GRes) (al : Order → List UInt8 → Nat) (h : Hdr) (bs : List UInt8) : Nat :=
  match h.kind with
  | .point => if bs.length < 16 then 0 else seqAlloc h.hasZ h.hasM 1
  | .lineString => allocSized h.order h.hasZ h.hasM bs
  | .circularString => allocSized h.order h.hasZ h.hasM bs
  | .polygon =>
    match readU32 h.order bs with
    | .error _ => 0
    | .ok (n, bs) =>
      if bs.length < n * 4 then 0 else
      match n with
      | 0 => 0
      | k + 1 =>
        allocSized h.order h.hasZ h.hasM bs +
          (match readRing h.order h.hasZ h.hasM bs with
           | .error _ => 0
           | .ok (_, bs) => allocRings h.order h.hasZ h.hasM k bs)
  | .compoundCurve => allocColl rd al isSimpleCurve 9 h bs
  | .curvePolygon =>
    match readU32 h.order bs with
    | .error _ => 0
    | .ok (n, bs) =>
      if bs.length < n * 4 then 0 else
      match n with
      | 0 => 0
      | k + 1 =>
        al h.order bs +
          (match asChild isCurve (rd h.order bs) with
           | .error _ => 0
           | .ok (_, o, bs) => allocN (fun o bs => asChild isCurve (rd o bs)) al k o bs)
  | .multiPoint => allocColl rd al isPoint 21 h bs
  | .multiLineString => allocColl rd al isLineString 9 h bs
  | .multiPolygon => allocColl rd al isPolygon 9 h bs
  | .collection => allocColl rd al (fun _ => true) 9 h bs
  | .multiCurve => allocColl rd al isCurve 9 h bs
  | .multiSurface => allocColl rd al isSurface 9 h bs

/-- bytes charged (module comment) while `readGeom fuel o bs` runs -/
def allocGeom (arc : ArcOracle) : Nat → Order → List UInt8 → Nat
  | 0, _, _ => 0
  | fuel + 1, o, bs =>
    match readHeader o bs with
    | .error _ => 0
    | .ok (h, bs) => allocBody (readGeom arc fuel) (allocGeom arc fuel) h bs

/-- bytes charged while `read bs` runs -/
def allocOf (arc : ArcOracle) (bs : List UInt8) : Nat := allocGeom arc (bs.length + 1) .le bs

end GeosModel.WKB
