import GeosModel.Base.GTree
/-!
Common definitions of the WKB model (C09): byte order, configuration, fixed-width integer and double
(de)serialisation (`ByteOrderValues.cpp`), IEEE classification of bit patterns, geometry flags
(`Geometry::hasZ/hasM/isEmpty`), the HEX layer (`WKBReader::printHEX`, `WKBReader::readHEX`).
All integer arithmetic is on `Nat` (a 32-bit word is a `Nat < 2^32`), so that `omega` decides it.
Core Lean only.
-/
namespace GeosModel.WKB
open GeosModel

/-- `ByteOrderValues::ENDIAN_BIG = 0` (XDR), `ENDIAN_LITTLE = 1` (NDR) -/
inductive Order where
  | be | le
deriving DecidableEq, Repr, Inhabited

/-- `WKBConstants::wkbExtended = 1`, `wkbIso = 2` -/
inductive Flavor where
  | ext | iso
deriving DecidableEq, Repr, Inhabited

/-- writer configuration: `defaultOutputDimension`, `byteOrder`, `flavor`, `includeSRID` -/
structure Cfg where
  dims : Nat
  order : Order
  flavor : Flavor
  srid : Bool
deriving DecidableEq, Repr, Inhabited

def Order.byte : Order → UInt8
  | .be => 0
  | .le => 1

/-! ### fixed-width values -/

def byteAt (n k : Nat) : UInt8 := UInt8.ofNat (n / 256 ^ k % 256)

/-- `ByteOrderValues::putInt` / `putUnsigned` on the low 32 bits of `n` -/
def putU32 (o : Order) (n : Nat) : List UInt8 :=
  match o with
  | .le => [byteAt n 0, byteAt n 1, byteAt n 2, byteAt n 3]
  | .be => [byteAt n 3, byteAt n 2, byteAt n 1, byteAt n 0]

/-- `ByteOrderValues::putLong` (via `putDouble`'s `memcpy`) -/
def putU64 (o : Order) (u : UInt64) : List UInt8 :=
  let n := u.toNat
  match o with
  | .le => [byteAt n 0, byteAt n 1, byteAt n 2, byteAt n 3, byteAt n 4, byteAt n 5, byteAt n 6, byteAt n 7]
  | .be => [byteAt n 7, byteAt n 6, byteAt n 5, byteAt n 4, byteAt n 3, byteAt n 2, byteAt n 1, byteAt n 0]

/-- `ByteOrderValues::getUnsigned` -/
def getU32 (o : Order) (a b c d : UInt8) : Nat :=
  match o with
  | .le => a.toNat + 256 * b.toNat + 65536 * c.toNat + 16777216 * d.toNat
  | .be => d.toNat + 256 * c.toNat + 65536 * b.toNat + 16777216 * a.toNat

def getU64N (o : Order) (a b c d e f g h : UInt8) : Nat :=
  match o with
  | .le => a.toNat + 256 * b.toNat + 65536 * c.toNat + 16777216 * d.toNat
            + 4294967296 * (e.toNat + 256 * f.toNat + 65536 * g.toNat + 16777216 * h.toNat)
  | .be => h.toNat + 256 * g.toNat + 65536 * f.toNat + 16777216 * e.toNat
            + 4294967296 * (d.toNat + 256 * c.toNat + 65536 * b.toNat + 16777216 * a.toNat)

/-- `ByteOrderValues::getLong` / `getDouble` -/
def getU64 (o : Order) (a b c d e f g h : UInt8) : UInt64 := UInt64.ofNat (getU64N o a b c d e f g h)

/-- two's complement image of a C `int` in a 32-bit word -/
def intToU32 (i : Int) : Nat := (i % 4294967296).toNat

/-- `ByteOrderValues::getInt`: the 32-bit word as a signed `int` -/
def u32ToInt (n : Nat) : Int := if n < 2147483648 then (n : Int) else (n : Int) - 4294967296

/-! ### IEEE-754 classification on bit patterns -/

/-- `std::isnan` -/
def isNaNBits (u : UInt64) : Bool := (u.toNat % 9223372036854775808) > 9218868437227405312

/-- `a == b` on doubles: neither is NaN, and the bits agree or both are zeros (of any sign) -/
def f64Eq (a b : UInt64) : Bool :=
  !isNaNBits a && !isNaNBits b && (a == b || (a.toNat % 9223372036854775808 == 0 && b.toNat % 9223372036854775808 == 0))

/-- `CoordinateXY::equals2D` -/
def Coord.eq2D (a b : Coord) : Bool := f64Eq a.x b.x && f64Eq a.y b.y

/-! ### geometry flags -/

def toN (b : Bool) : Nat := if b then 1 else 0

/-- `WKBWriter::getOutputOrdinates`: drop M, then Z, until at most `d` ordinates remain -/
def outOrd (d : Nat) (z m : Bool) : Bool × Bool :=
  if 2 + toN z + toN m ≤ d then (z, m)
  else if m then (if 2 + toN z ≤ d then (z, false) else (false, false))
  else (false, false)

mutual
  /-- does some coordinate sequence of the tree satisfy `p` (`Geometry::hasZ`, `hasM` are instances:
  `Surface::hasZ`, `CompoundCurve::hasZ`, `GeometryCollection::setFlags` are all "any component") -/
  def anySeq (p : CSeq → Bool) : G → Bool
    | .point s => p s
    | .lineString s => p s
    | .linearRing s => p s
    | .circularString s => p s
    | .polygon sh hs => p sh || hs.any p
    | .compoundCurve gs => anySeqs p gs
    | .curvePolygon gs => anySeqs p gs
    | .multiPoint gs => anySeqs p gs
    | .multiLineString gs => anySeqs p gs
    | .multiPolygon gs => anySeqs p gs
    | .multiCurve gs => anySeqs p gs
    | .multiSurface gs => anySeqs p gs
    | .collection gs => anySeqs p gs
  def anySeqs (p : CSeq → Bool) : List G → Bool
    | [] => false
    | g :: gs => anySeq p g || anySeqs p gs
end

def gHasZ (g : G) : Bool := anySeq (·.hasZ) g
def gHasM (g : G) : Bool := anySeq (·.hasM) g

mutual
  /-- `Geometry::isEmpty` -/
  def gIsEmpty : G → Bool
    | .point s => s.pts.isEmpty
    | .lineString s => s.pts.isEmpty
    | .linearRing s => s.pts.isEmpty
    | .circularString s => s.pts.isEmpty
    | .polygon sh _ => sh.pts.isEmpty
    | .compoundCurve gs => gsAllEmpty gs
    | .curvePolygon gs => match gs with
        | [] => true
        | g :: _ => gIsEmpty g
    | .multiPoint gs => gsAllEmpty gs
    | .multiLineString gs => gsAllEmpty gs
    | .multiPolygon gs => gsAllEmpty gs
    | .multiCurve gs => gsAllEmpty gs
    | .multiSurface gs => gsAllEmpty gs
    | .collection gs => gsAllEmpty gs
  def gsAllEmpty : List G → Bool
    | [] => true
    | g :: gs => gIsEmpty g && gsAllEmpty gs
end

def isPoint : G → Bool | .point _ => true | _ => false
/-- `dynamic_cast<LineString*>` succeeds (LinearRing is a subclass) -/
def isLineString : G → Bool | .lineString _ => true | .linearRing _ => true | _ => false
def isPolygon : G → Bool | .polygon _ _ => true | _ => false
/-- `dynamic_cast<SimpleCurve*>` -/
def isSimpleCurve : G → Bool | .lineString _ => true | .linearRing _ => true | .circularString _ => true | _ => false
/-- `dynamic_cast<Curve*>` -/
def isCurve : G → Bool
  | .lineString _ => true | .linearRing _ => true | .circularString _ => true | .compoundCurve _ => true | _ => false
/-- `dynamic_cast<Surface*>` -/
def isSurface : G → Bool | .polygon _ _ => true | .curvePolygon _ => true | _ => false

/-! ### HEX layer -/

/-- `WKBReader::printHEX`'s table `"0123456789ABCDEF"` -/
def hexDigit (n : Nat) : Char :=
  match n with
  | 0 => '0' | 1 => '1' | 2 => '2' | 3 => '3' | 4 => '4' | 5 => '5' | 6 => '6' | 7 => '7'
  | 8 => '8' | 9 => '9' | 10 => 'A' | 11 => 'B' | 12 => 'C' | 13 => 'D' | 14 => 'E' | _ => 'F'

/-- `ASCIIHexToUChar` (both cases accepted; anything else is a `ParseException`) -/
def hexVal (c : Char) : Option Nat :=
  match c with
  | '0' => some 0 | '1' => some 1 | '2' => some 2 | '3' => some 3 | '4' => some 4
  | '5' => some 5 | '6' => some 6 | '7' => some 7 | '8' => some 8 | '9' => some 9
  | 'A' => some 10 | 'a' => some 10 | 'B' => some 11 | 'b' => some 11 | 'C' => some 12 | 'c' => some 12
  | 'D' => some 13 | 'd' => some 13 | 'E' => some 14 | 'e' => some 14 | 'F' => some 15 | 'f' => some 15
  | _ => none

def hexEncode : List UInt8 → List Char
  | [] => []
  | b :: bs => hexDigit (b.toNat / 16) :: hexDigit (b.toNat % 16) :: hexEncode bs

/-- the decoding loop of `WKBReader::readHEX`: `none` = odd length or a non-hex character -/
def hexDecode : List Char → Option (List UInt8)
  | [] => some []
  | [_] => none
  | h :: l :: cs =>
    match hexVal h, hexVal l with
    | some a, some b =>
      match hexDecode cs with
      | some bs => some (UInt8.ofNat (a * 16 + b) :: bs)
      | none => none
    | _, _ => none

end GeosModel.WKB
