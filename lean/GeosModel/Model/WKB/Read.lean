import GeosModel.Model.WKB.Basic
/-!
Model of `geos::io::WKBReader` (src/io/WKBReader.cpp) with `ByteOrderDataInStream`.

Reader state that the C++ keeps in members: the stream position (here: the remaining bytes — every
primitive read checks `size() < k` first), the stream's byte order (changed only by an order byte
0 or 1, otherwise *kept from the previous header*; initially the machine's = little endian) and
`hasZ/hasM/inputDimension`, overwritten by every header and only used before the next header is
read, hence local here.  Exceptions (`ParseException`, `IllegalArgumentException` from the geometry
constructors) are the `Err` values.  (`CompoundCurve::validateConstruction` used to call `front()/back()`
on an empty section — undefined behaviour; since /repo 82860eb92 it throws instead, modelled as `construct`.)

`readGeom` recurses on a fuel argument = the recursion depth still allowed; `read` supplies the input
length + 1, which always suffices (each nesting level consumes at least five bytes; `Props/C11`).
Core Lean only.
-/
namespace GeosModel.WKB
open GeosModel

inductive Err where
  | eof              -- "Unexpected EOF parsing WKB"
  | unknownType      -- "Unknown WKB type"
  | tooSmall         -- "Input buffer is smaller than requested object size" (minMemSize)
  | childType        -- readChild<T>: "Expected T but got ..."
  | construct        -- IllegalArgumentException from a geometry constructor
  | fuel             -- never returned by `read` (see `Props/C11`)
  | hex              -- readHEX: odd length / invalid character
deriving DecidableEq, Repr, Inhabited

def readByte : List UInt8 → Except Err (UInt8 × List UInt8)
  | b :: r => .ok (b, r)
  | [] => .error .eof

def readU32 (o : Order) : List UInt8 → Except Err (Nat × List UInt8)
  | a :: b :: c :: d :: r => .ok (getU32 o a b c d, r)
  | _ => .error .eof

def readU64 (o : Order) : List UInt8 → Except Err (UInt64 × List UInt8)
  | a :: b :: c :: d :: e :: f :: g :: h :: r => .ok (getU64 o a b c d e f g h, r)
  | _ => .error .eof

inductive Kind where
  | point | lineString | polygon | multiPoint | multiLineString | multiPolygon | collection
  | circularString | compoundCurve | curvePolygon | multiCurve | multiSurface
deriving DecidableEq, Repr, Inhabited

/-- `WKBConstants::wkbType` -/
def kindOfCode (n : Nat) : Option Kind :=
  if n = 1 then some .point else if n = 2 then some .lineString else if n = 3 then some .polygon
  else if n = 4 then some .multiPoint else if n = 5 then some .multiLineString
  else if n = 6 then some .multiPolygon else if n = 7 then some .collection
  else if n = 8 then some .circularString else if n = 9 then some .compoundCurve
  else if n = 10 then some .curvePolygon else if n = 11 then some .multiCurve
  else if n = 12 then some .multiSurface else none

structure Hdr where
  kind : Kind
  hasZ : Bool
  hasM : Bool
  srid : Int
  order : Order
deriving Repr

/-- decoding of the type word in `readGeometry`: `(typeInt & 0xffff) % 1000`, the ISO range
`(typeInt & 0xffff) / 1000` (1, 3 = Z; 2, 3 = M), the SFSQL flag bits 0x80000000 / 0x40000000, and the
SRID flag 0x20000000.  Returns (geometryType, hasZ, hasM, hasSRID). -/
def decodeType (t : Nat) : Nat × Bool × Bool × Bool :=
  let gt := t % 65536 % 1000
  let rng := t % 65536 / 1000
  let z := (t / 2147483648 % 2 == 1) || (rng == 1 || rng == 3)
  let m := (t / 1073741824 % 2 == 1) || (rng == 2 || rng == 3)
  (gt, z, m, t / 536870912 % 2 == 1)

/-- the first half of `readGeometry`: order byte, type word, flags, SRID -/
def readHeader (o : Order) (bs : List UInt8) : Except Err (Hdr × List UInt8) :=
  match readByte bs with
  | .error e => .error e
  | .ok (b, bs) =>
    let o' : Order := if b = 1 then .le else if b = 0 then .be else o
    match readU32 o' bs with
    | .error e => .error e
    | .ok (t, bs) =>
      match decodeType t with
      | (gt, z, m, true) =>
        match readU32 o' bs with
        | .error e => .error e
        | .ok (v, bs) =>
          match kindOfCode gt with
          | none => .error .unknownType
          | some k => .ok (⟨k, z, m, u32ToInt v, o'⟩, bs)
      | (gt, z, m, false) =>
        match kindOfCode gt with
        | none => .error .unknownType
        | some k => .ok (⟨k, z, m, 0, o'⟩, bs)

/-- the loop of `readCoordinateSequence` (`readCoordinate` reads `inputDimension` doubles;
`makePrecise` is the identity for the floating precision model) -/
def readCoords (o : Order) (z m : Bool) : Nat → List UInt8 → Except Err (List Coord × List UInt8)
  | 0, bs => .ok ([], bs)
  | n + 1, bs =>
    match readU64 o bs with
    | .error e => .error e
    | .ok (x, bs) =>
    match readU64 o bs with
    | .error e => .error e
    | .ok (y, bs) =>
    match (if z then readU64 o bs else .ok (nanBits, bs)) with
    | .error e => .error e
    | .ok (zv, bs) =>
    match (if m then readU64 o bs else .ok (nanBits, bs)) with
    | .error e => .error e
    | .ok (mv, bs) =>
    match readCoords o z m n bs with
    | .error e => .error e
    | .ok (ps, bs) => .ok (⟨x, y, zv, mv⟩ :: ps, bs)

/-- `readCoordinateSequence(size)`: `minMemSize(GEOS_LINESTRING, size)` then the loop -/
def readCoordSeq (o : Order) (z m : Bool) (n : Nat) (bs : List UInt8) : Except Err (CSeq × List UInt8) :=
  if bs.length < n * 16 then .error .tooSmall else
  match readCoords o z m n bs with
  | .error e => .error e
  | .ok (ps, bs) => .ok (⟨z, m, ps⟩, bs)

/-- size word, `minMemSize`, `readCoordinateSequence` — common to line string, linear ring, circular string -/
def readSizedSeq (o : Order) (z m : Bool) (bs : List UInt8) : Except Err (CSeq × List UInt8) :=
  match readU32 o bs with
  | .error e => .error e
  | .ok (n, bs) => if bs.length < n * 16 then .error .tooSmall else readCoordSeq o z m n bs

/-! ### the constructors' checks -/

/-- `SimpleCurve::isClosed` for a non-empty sequence -/
def closedPts (ps : List Coord) : Bool :=
  match ps.head?, ps.getLast? with
  | some a, some b => Coord.eq2D a b
  | _, _ => false

/-- `LineString::validateConstruction` -/
def lineOK (s : CSeq) : Bool := s.pts.length != 1
/-- `LinearRing::validateConstruction` (after the base class check) -/
def ringOK (s : CSeq) : Bool := s.pts.isEmpty || (closedPts s.pts && 3 ≤ s.pts.length)
/-- The one constructor check that is *floating-point arithmetic*: the `SimpleCurve` constructor of a
circular string computes its envelope (`CircularArcs::expandEnvelope` on every consecutive point triple:
circum-centre, `Orientation::index`, `Quadrant::quadrant`), which throws `IllegalArgumentException` for some
coordinate values (non-finite ordinates, overflowing centres, a centre that coincides with the third point).
The model takes this as an oracle over the X/Y bit patterns of the sequence — `true` = the constructor throws.
Theorems hold for *every* oracle; the driver supplies the `Float` transcription of the C++ (`Driver/C09.lean`). -/
abbrev ArcOracle := List (UInt64 × UInt64) → Bool

def xyOf (ps : List Coord) : List (UInt64 × UInt64) := ps.map (fun p => (p.x, p.y))

/-- `CircularString::validateConstruction` + the envelope computation of the `SimpleCurve` constructor -/
def circOK (arc : ArcOracle) (s : CSeq) : Bool := s.pts.length != 2 && !arc (xyOf s.pts)

/-- the coordinate sequence of a simple curve -/
def seqOf : G → CSeq
  | .lineString s => s
  | .linearRing s => s
  | .circularString s => s
  | _ => ⟨false, false, []⟩

/-- `CompoundCurve::validateConstruction`: for every pair of neighbouring sections, neither may be empty
("Sections of CompoundCurve must not be empty") and the end of the first must equal (2D, by value) the
start of the second.  A single section is not looked at. -/
def checkContig : List G → Except Err Unit
  | [] => .ok ()
  | [_] => .ok ()
  | a :: b :: rest =>
    match (seqOf a).pts.getLast?, (seqOf b).pts.head? with
    | some e, some s => if Coord.eq2D s e then checkContig (b :: rest) else .error .construct
    | _, _ => .error .construct

/-- `readPoint`'s "POINT EMPTY" rule -/
def pointOfSeq (s : CSeq) : G :=
  match s.pts with
  | p :: _ => if isNaNBits p.x && isNaNBits p.y then .point ⟨s.hasZ, s.hasM, []⟩ else .point s
  | [] => .point s

/-- `readLinearRing` (fixStructure off) -/
def readRing (o : Order) (z m : Bool) (bs : List UInt8) : Except Err (CSeq × List UInt8) :=
  match readSizedSeq o z m bs with
  | .error e => .error e
  | .ok (s, bs) => if lineOK s && ringOK s then .ok (s, bs) else .error .construct

def readRings (o : Order) (z m : Bool) : Nat → List UInt8 → Except Err (List CSeq × List UInt8)
  | 0, bs => .ok ([], bs)
  | n + 1, bs =>
    match readRing o z m bs with
    | .error e => .error e
    | .ok (s, bs) =>
      match readRings o z m n bs with
      | .error e => .error e
      | .ok (ss, bs) => .ok (s :: ss, bs)

/-- result of reading one geometry: the tree, its SRID, the stream's byte order afterwards, the rest -/
abbrev GRes := Except Err ((G × Int) × Order × List UInt8)

/-- `for (i < n) geoms.push_back(readChild<T>())` for a child reader `f` (byte order threaded through) -/
def readN (f : Order → List UInt8 → Except Err (G × Order × List UInt8)) :
    Nat → Order → List UInt8 → Except Err (List G × Order × List UInt8)
  | 0, o, bs => .ok ([], o, bs)
  | n + 1, o, bs =>
    match f o bs with
    | .error e => .error e
    | .ok (g, o, bs) =>
      match readN f n o bs with
      | .error e => .error e
      | .ok (gs, o, bs) => .ok (g :: gs, o, bs)

/-- `readChild<T>`: read a geometry, then `dynamic_cast` -/
def asChild (p : G → Bool) (r : GRes) : Except Err (G × Order × List UInt8) :=
  match r with
  | .error e => .error e
  | .ok ((g, _), o, bs) => if p g then .ok (g, o, bs) else .error .childType

/-- the typed-collection readers: count, `minMemSize(count × unit)`, children, constructor -/
def readColl (rd : Order → List UInt8 → GRes) (p : G → Bool) (unit : Nat) (mk : List G → G)
    (h : Hdr) (bs : List UInt8) : GRes :=
  match readU32 h.order bs with
  | .error e => .error e
  | .ok (n, bs) =>
    if bs.length < n * unit then .error .tooSmall else
    match readN (fun o bs => asChild p (rd o bs)) n h.order bs with
    | .error e => .error e
    | .ok (gs, o, bs) => .ok ((mk gs, h.srid), o, bs)

/-- the second half of `readGeometry` (the `switch`), given how nested geometries are read -/
def readBody (arc : ArcOracle) (rd : Order → List UInt8 → GRes) (h : Hdr) (bs : List UInt8) : GRes :=
  match h.kind with
  | .point =>
    match readCoordSeq h.order h.hasZ h.hasM 1 bs with
    | .error e => .error e
    | .ok (s, bs) => .ok ((pointOfSeq s, h.srid), h.order, bs)
  | .lineString =>
    match readSizedSeq h.order h.hasZ h.hasM bs with
    | .error e => .error e
    | .ok (s, bs) => if lineOK s then .ok ((.lineString s, h.srid), h.order, bs) else .error .construct
  | .circularString =>
    match readSizedSeq h.order h.hasZ h.hasM bs with
    | .error e => .error e
    | .ok (s, bs) => if circOK arc s then .ok ((.circularString s, h.srid), h.order, bs) else .error .construct
  | .polygon =>
    match readU32 h.order bs with
    | .error e => .error e
    | .ok (n, bs) =>
      if bs.length < n * 4 then .error .tooSmall else
      match n with
      | 0 => .ok ((.polygon ⟨h.hasZ, h.hasM, []⟩ [], h.srid), h.order, bs)
      | k + 1 =>
        match readRing h.order h.hasZ h.hasM bs with
        | .error e => .error e
        | .ok (sh, bs) =>
          match readRings h.order h.hasZ h.hasM k bs with
          | .error e => .error e
          | .ok (hs, bs) =>
            if sh.pts.isEmpty && hs.any (fun r => !r.pts.isEmpty) then .error .construct
            else .ok ((.polygon sh hs, h.srid), h.order, bs)
  | .compoundCurve =>
    match readU32 h.order bs with
    | .error e => .error e
    | .ok (n, bs) =>
      if bs.length < n * 9 then .error .tooSmall else
      match readN (fun o bs => asChild isSimpleCurve (rd o bs)) n h.order bs with
      | .error e => .error e
      | .ok (gs, o, bs) =>
        match checkContig gs with
        | .error e => .error e
        | .ok _ => .ok ((.compoundCurve gs, h.srid), o, bs)
  | .curvePolygon =>
    match readU32 h.order bs with
    | .error e => .error e
    | .ok (n, bs) =>
      if bs.length < n * 4 then .error .tooSmall else
      match n with
      | 0 => .ok ((.curvePolygon [.linearRing ⟨h.hasZ, h.hasM, []⟩], h.srid), h.order, bs)
      | k + 1 =>
        match asChild isCurve (rd h.order bs) with
        | .error e => .error e
        | .ok (sh, o, bs) =>
          match readN (fun o bs => asChild isCurve (rd o bs)) k o bs with
          | .error e => .error e
          | .ok (hs, o, bs) =>
            if gIsEmpty sh && hs.any (fun r => !gIsEmpty r) then .error .construct
            else .ok ((.curvePolygon (sh :: hs), h.srid), o, bs)
  | .multiPoint => readColl rd isPoint 21 .multiPoint h bs
  | .multiLineString => readColl rd isLineString 9 .multiLineString h bs
  | .multiPolygon => readColl rd isPolygon 9 .multiPolygon h bs
  | .collection => readColl rd (fun _ => true) 9 .collection h bs
  | .multiCurve => readColl rd isCurve 9 .multiCurve h bs
  | .multiSurface => readColl rd isSurface 9 .multiSurface h bs

/-- `WKBReader::readGeometry` -/
def readGeom (arc : ArcOracle) : Nat → Order → List UInt8 → GRes
  | 0, _, _ => .error .fuel
  | fuel + 1, o, bs =>
    match readHeader o bs with
    | .error e => .error e
    | .ok (h, bs) => readBody arc (readGeom arc fuel) h bs

/-- `WKBReader::read(buf, size)`: the stream starts in machine (little endian) order; bytes after the
geometry are ignored -/
def read (arc : ArcOracle) (bs : List UInt8) : Except Err Geom :=
  match readGeom arc (bs.length + 1) .le bs with
  | .error e => .error e
  | .ok ((g, srid), _, _) => .ok ⟨srid, g⟩

/-- `WKBReader::readHEX` -/
def readHex (arc : ArcOracle) (cs : List Char) : Except Err Geom :=
  match hexDecode cs with
  | none => .error .hex
  | some bs => read arc bs

end GeosModel.WKB
