import GeosModel.Base.Kernel
import GeosModel.Base.GTree
/-!
# C08 — specification of the distance functions (exact, over `Int` points)

Inputs are points with `Int` coordinates: a grid, or doubles scaled to one common power of two
(`F64.scaleAll`), so every value below is exact.  Squared distances are non-negative rationals kept as
an (unreduced) numerator / positive denominator pair `Q`; no square root is ever taken.

* `pointSeg2`, `segSeg2`  — squared distance point–segment / segment–segment: the projection-and-clamp
  formula of `algorithm::Distance::pointToSegment / segmentToSegment`, evaluated exactly.
* `IGeom`, `facetDist2`, `intersects`, `dist2` — two geometries (lists of point / line / polygon
  components, empties already dropped): 0 if they intersect (polygons are areas), else the minimum over all
  facet pairs (a point is a degenerate facet).  `facetDist2` alone is what `IndexedFacetDistance` promises
  (linework only, no area test).
* `hausdorff2` — max–min over vertices against the other geometry's linework, both directions.
* `frechetDP` — discrete Fréchet distance by the usual dynamic programme; `frechetRec` is the textbook
  recursive definition it is proved equal to (Props/C08).
Core Lean only (this file is linked into the driver).
-/
namespace GeosModel.Distance
open GeosModel.Kernel

/-- non-negative rational `num/den`, `den > 0`, not reduced -/
structure Q where
  num : Int
  den : Int
  pos : 0 < den

instance : Repr Q := ⟨fun q _ => repr q.num ++ "/" ++ repr q.den⟩
instance : Inhabited Q := ⟨⟨0, 1, by decide⟩⟩

def Q.ofInt (n : Int) : Q := ⟨n, 1, by decide⟩
/-- `a ≤ b` by cross-multiplication -/
def Q.le (a b : Q) : Bool := decide (a.num * b.den ≤ b.num * a.den)
def Q.eqv (a b : Q) : Bool := decide (a.num * b.den = b.num * a.den)
def Q.min (a b : Q) : Q := if Q.le a b then a else b
def Q.isZero (a : Q) : Bool := a.num == 0

/-- squared distance from `p` to the closed segment `(a,b)`: with `t = (p−a)·(b−a)` and `L² = |b−a|²`,
`t ≤ 0 → |p−a|²`, `t ≥ L² → |p−b|²`, otherwise the perpendicular `det(a,b,p)² / L²`
(`Distance::pointToSegment`: `r = t/L²`, tests `r <= 0`, `r >= 1`, else `|s|·L`, `s = det/L²`). -/
def pointSeg2 (p a b : Pt) : Q :=
  if h : 0 < sqDist a b then
    if dot a b p ≤ 0 then Q.ofInt (sqDist p a)
    else if sqDist a b ≤ dot a b p then Q.ofInt (sqDist p b)
    else ⟨det a b p * det a b p, sqDist a b, h⟩
  else Q.ofInt (sqDist p a)

def min4 (a b c d : Q) : Q := Q.min (Q.min a b) (Q.min c d)

/-- squared distance between closed segments `(a,b)` and `(c,d)` (either may be a single point):
0 when they share a point, otherwise the least of the four endpoint-to-segment distances
(`Distance::segmentToSegment`). -/
def segSeg2 (a b c d : Pt) : Q :=
  if segRel a b c d == .disjoint then
    min4 (pointSeg2 a c d) (pointSeg2 b c d) (pointSeg2 c a b) (pointSeg2 d a b)
  else Q.ofInt 0

/-! ### generic minimum / maximum of a list under a Boolean order -/
section order
variable {D : Type}

def minList (le : D → D → Bool) : D → List D → D
  | m, [] => m
  | m, y :: ys => minList le (if le m y then m else y) ys

def maxList (le : D → D → Bool) : D → List D → D
  | m, [] => m
  | m, y :: ys => maxList le (if le m y then y else m) ys

def minOver (le : D → D → Bool) : List D → Option D
  | [] => none
  | x :: xs => some (minList le x xs)

def maxOver (le : D → D → Bool) : List D → Option D
  | [] => none
  | x :: xs => some (maxList le x xs)

/-- max over rows of (min of the row); empty rows are skipped -/
def maxMin (le : D → D → Bool) (rows : List (List D)) : Option D :=
  maxOver le (rows.filterMap (minOver le))

end order

/-! ### geometries -/

inductive Comp where
  | pt (p : Pt)
  | line (ps : List Pt)                 -- ≥ 2 vertices (LineString / LinearRing)
  | poly (rings : List (List Pt))       -- shell :: holes, closed rings
deriving Repr

/-- a geometry = its non-empty atomic components in traversal order -/
abbrev IGeom := List Comp

def Comp.facets : Comp → List (Pt × Pt)
  | .pt p => [(p, p)]
  | .line ps => edges ps
  | .poly rs => rs.flatMap edges

def Comp.verts : Comp → List Pt
  | .pt p => [p]
  | .line ps => ps
  | .poly rs => rs.flatten

def Comp.rings : Comp → List (List (List Pt))
  | .poly rs => [rs]
  | _ => []

def facets (g : IGeom) : List (Pt × Pt) := g.flatMap Comp.facets
/-- all vertices in traversal order (`Geometry::getCoordinates`) -/
def verts (g : IGeom) : List Pt := g.flatMap Comp.verts
def polys (g : IGeom) : List (List (List Pt)) := g.flatMap Comp.rings
/-- the segments proper (points excluded): what densification subdivides -/
def segs (g : IGeom) : List (Pt × Pt) := g.flatMap fun c => match c with | .pt _ => [] | c => c.facets

def fdist (fa fb : Pt × Pt) : Q := segSeg2 fa.1 fa.2 fb.1 fb.2

def facetPairs (A B : IGeom) : List Q :=
  (facets A).flatMap fun fa => (facets B).map fun fb => fdist fa fb

/-- minimum distance between the linework (and points) of the two geometries — `IndexedFacetDistance` -/
def facetDist2 (A B : IGeom) : Option Q := minOver Q.le (facetPairs A B)

/-- `p` lies in (interior or boundary of) some polygon of `g` -/
def inArea (p : Pt) (g : IGeom) : Bool := (polys g).any fun rs => locateInPolygon p rs != .exterior

/-- the point sets meet: some facets meet, or a vertex of one lies in a polygon of the other
(if no facets meet, every connected component lies wholly inside or outside each polygon) -/
def intersects (A B : IGeom) : Bool :=
  (facetPairs A B).any Q.isZero || (verts A).any (inArea · B) || (verts B).any (inArea · A)

/-- squared distance between the point sets; `none` when one side has no points at all -/
def dist2 (A B : IGeom) : Option Q :=
  if intersects A B then some (Q.ofInt 0) else facetDist2 A B

/-- squared distance from a point to a geometry as a point set (areas included) -/
def ptDist2 (p : Pt) (g : IGeom) : Option Q := dist2 [.pt p] g

/-! ### discrete Hausdorff distance (`DiscreteHausdorffDistance`): vertices of one side against the
*linework* of the other (a polygon is its rings), maximum over both directions -/

def rowOf (B : IGeom) (p : Pt) : List Q := (facets B).map fun f => pointSeg2 p f.1 f.2

def directedH2 (ps : List Pt) (B : IGeom) : Option Q := maxMin Q.le (ps.map (rowOf B))

def optMax (a b : Option Q) : Option Q :=
  match a, b with
  | some x, some y => some (if Q.le x y then y else x)
  | some x, none => some x
  | none, y => y

/-- `n` equally spaced points `a + i·(b−a)/n`, `i < n`; exact when `n` divides `b − a` (the driver scales
all coordinates by `n` first) -/
def subdiv (n : Nat) (a b : Pt) : List Pt :=
  (List.range n).map fun (i : Nat) => ⟨a.x + (i : Int) * ((b.x - a.x) / (n : Int)), a.y + (i : Int) * ((b.y - a.y) / (n : Int))⟩

/-- the sample points of one side: its vertices plus (for `n ≥ 2`) the subdivision points of every segment -/
def samplePts (n : Nat) (g : IGeom) : List Pt :=
  verts g ++ (if n ≤ 1 then [] else (segs g).flatMap fun e => subdiv n e.1 e.2)

def hausdorff2 (n : Nat) (A B : IGeom) : Option Q :=
  optMax (directedH2 (samplePts n A) B) (directedH2 (samplePts n B) A)

/-! ### discrete Fréchet distance (`DiscreteFrechetDistance`) over the two vertex lists -/
section frechet
variable {α D : Type}

def min3 (le : D → D → Bool) (a b c : D) : D :=
  let m := if le a b then a else b
  if le c m then c else m      -- GEOS: `minDist = (d1 < d2) ? d1 : d2; if (d3 < minDist) minDist = d3` (value-equal on ties)

def dmax (le : D → D → Bool) (a b : D) : D := if le a b then b else a

/-- first row: `c(0,j) = max(c(0,j−1), d(p₀,q_j))` -/
def firstRow (le : D → D → Bool) (d : α → α → D) (p : α) : D → List α → List D
  | _, [] => []
  | acc, q :: qs => let v := dmax le acc (d p q); v :: firstRow le d p v qs

/-- rest of a later row: `left = c(i,j−1)`, `diag = c(i−1,j−1)`, `ups = c(i−1,j…)` -/
def nextRowAux (le : D → D → Bool) (d : α → α → D) (p : α) : D → D → List D → List α → List D
  | left, diag, up :: ups, q :: qs =>
    let v := dmax le (min3 le up diag left) (d p q)
    v :: nextRowAux le d p v up ups qs
  | _, _, _, _ => []

/-- a later row from the previous one: `c(i,0) = max(c(i−1,0), d(p_i,q₀))` then `nextRowAux` -/
def nextRow (le : D → D → Bool) (d : α → α → D) (p : α) : List D → List α → List D
  | up :: ups, q :: qs => let v := dmax le up (d p q); v :: nextRowAux le d p v up ups qs
  | _, _ => []

def rowsFrom (le : D → D → Bool) (d : α → α → D) (qs : List α) : List D → List α → List D
  | row, [] => row
  | row, p :: ps => rowsFrom le d qs (nextRow le d p row qs) ps

/-- the dynamic programme: last entry of the last row -/
def frechetDP (le : D → D → Bool) (d : α → α → D) (ps qs : List α) : Option D :=
  match ps, qs with
  | p :: ps', q :: qs' => (rowsFrom le d qs (d p q :: firstRow le d p (d p q) qs') ps').getLast?
  | _, _ => none

/-- the recursive definition (Eiter–Mannila) on indices: `dd i j` = distance of vertex `i` of the first
list to vertex `j` of the second -/
def frechetRec (le : D → D → Bool) (dd : Nat → Nat → D) : Nat → Nat → D
  | 0, 0 => dd 0 0
  | 0, j + 1 => dmax le (frechetRec le dd 0 j) (dd 0 (j + 1))
  | i + 1, 0 => dmax le (frechetRec le dd i 0) (dd (i + 1) 0)
  | i + 1, j + 1 =>
    dmax le (min3 le (frechetRec le dd i (j + 1)) (frechetRec le dd i j) (frechetRec le dd (i + 1) j)) (dd (i + 1) (j + 1))
termination_by i j => (i, j)

end frechet

def ile (a b : Int) : Bool := decide (a ≤ b)

/-- squared discrete Fréchet distance of two vertex lists -/
def frechet2 (ps qs : List Pt) : Option Int := frechetDP ile sqDist ps qs

/-- the densified vertex list: every consecutive pair of the (concatenated) list subdivided into `n` -/
def densify (n : Nat) : List Pt → List Pt
  | a :: b :: r => subdiv n a b ++ densify n (b :: r)
  | l => l

/-! ### from `GTree` -/

def seqPts (f : UInt64 → Int) (s : CSeq) : List Pt := s.pts.map fun c => ⟨f c.x, f c.y⟩

mutual
  /-- components of a geometry with ordinates mapped by `f` (a scaling to integers); empty parts dropped;
  curved types are not supported by the distance functions and yield nothing (see `hasCurve`) -/
  def compsOf (f : UInt64 → Int) : G → IGeom
    | .point s => match s.pts with | [] => [] | c :: _ => [.pt ⟨f c.x, f c.y⟩]
    | .lineString s => if s.pts.isEmpty then [] else [.line (seqPts f s)]
    | .linearRing s => if s.pts.isEmpty then [] else [.line (seqPts f s)]
    | .polygon sh hs =>
        if sh.pts.isEmpty then [] else [.poly ((sh :: hs.filter (fun h => !h.pts.isEmpty)).map (seqPts f))]
    | .multiPoint gs => compsOfL f gs
    | .multiLineString gs => compsOfL f gs
    | .multiPolygon gs => compsOfL f gs
    | .collection gs => compsOfL f gs
    | .circularString _ => []
    | .compoundCurve _ => []
    | .curvePolygon _ => []
    | .multiCurve _ => []
    | .multiSurface _ => []
  def compsOfL (f : UInt64 → Int) : List G → IGeom
    | [] => []
    | g :: gs => compsOf f g ++ compsOfL f gs
end

mutual
  def hasCurve : G → Bool
    | .circularString _ => true
    | .compoundCurve _ => true
    | .curvePolygon _ => true
    | .multiCurve _ => true
    | .multiSurface _ => true
    | .multiPoint gs => hasCurveL gs
    | .multiLineString gs => hasCurveL gs
    | .multiPolygon gs => hasCurveL gs
    | .collection gs => hasCurveL gs
    | _ => false
  def hasCurveL : List G → Bool
    | [] => false
    | g :: gs => hasCurve g || hasCurveL gs
end

def seqOrds (s : CSeq) : List UInt64 := s.pts.flatMap fun c => [c.x, c.y]

mutual
  /-- every X and Y ordinate of a geometry -/
  def ordsOf : G → List UInt64
    | .point s => seqOrds s
    | .lineString s => seqOrds s
    | .linearRing s => seqOrds s
    | .circularString s => seqOrds s
    | .polygon sh hs => seqOrds sh ++ hs.flatMap seqOrds
    | .compoundCurve gs => ordsOfL gs
    | .curvePolygon gs => ordsOfL gs
    | .multiPoint gs => ordsOfL gs
    | .multiLineString gs => ordsOfL gs
    | .multiPolygon gs => ordsOfL gs
    | .multiCurve gs => ordsOfL gs
    | .multiSurface gs => ordsOfL gs
    | .collection gs => ordsOfL gs
  def ordsOfL : List G → List UInt64
    | [] => []
    | g :: gs => ordsOf g ++ ordsOfL gs
end

end GeosModel.Distance
