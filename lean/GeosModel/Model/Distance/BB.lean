import GeosModel.Model.Distance.Spec
import GeosModel.Model.Index.STR
import GeosModel.Base.Env
/-!
# C08 — the branch-and-bound nearest-facet search, instantiated on geometry facets

`GeosModel.STR.nnLoop` / `nearestRoot` (Model/Index/STR.lean) is the best-first loop of
`TemplateSTRtreeDistance::nearestNeighbour`: a priority queue ordered by a lower bound (envelope distance
for composite nodes, exact item distance for leaves), terminated when the head of the queue is no better
than the best leaf seen.  Here it is run with facets as items, `Envelope::distance²` as the bound and the
exact `segSeg2` as the item distance; `Props/C08.bb_returns_min` proves the loop returns a minimum for
*any* tree, bound and distance satisfying `lb node ≤ dist item` for the live items below the node.
Core Lean only.
-/
namespace GeosModel.Distance
open GeosModel.Kernel GeosModel.STR

abbrev Facet := Pt × Pt

def boxOf (f : Facet) : Box :=
  ⟨min f.1.x f.2.x, max f.1.x f.2.x, min f.1.y f.2.y, max f.1.y f.2.y⟩

/-- separation of the intervals `[lo1,hi1]`, `[lo2,hi2]` (0 when they overlap) -/
def gap (lo1 hi1 lo2 hi2 : Int) : Int :=
  if hi1 < lo2 then lo2 - hi1 else if hi2 < lo1 then lo1 - hi2 else 0

/-- the exact square of `Envelope::distance` -/
def boxBox2 (a b : Box) : Int :=
  let dx := gap a.minx a.maxx b.minx b.maxx
  let dy := gap a.miny a.maxy b.miny b.maxy
  dx * dx + dy * dy

def inBoxPt (b : Box) (p : Pt) : Prop := b.minx ≤ p.x ∧ p.x ≤ b.maxx ∧ b.miny ≤ p.y ∧ p.y ≤ b.maxy

/-- lower bound used for a tree node: squared envelope distance to the query facet's envelope -/
def envLB (q : Box) : Env → Q
  | none => Q.ofInt 0
  | some b => Q.ofInt (boxBox2 q b)

def envOps : Ops Env := { inter := Env.inter, union := Env.union }

def keyX (n : Node Env Facet) : Int := match n.bounds with | some b => b.minx + b.maxx | none => 0
def keyY (n : Node Env Facet) : Int := match n.bounds with | some b => b.miny + b.maxy | none => 0

/-- packed R-tree over the facets (`FacetSequenceTreeBuilder`, one facet per item) -/
def facetTree (cap : Nat) (fs : List Facet) : Option (Node Env Facet) :=
  buildRoot envOps cap (fun l => l.mergeSort (fun a b => keyX a ≤ keyX b))
    (fun l => l.mergeSort (fun a b => keyY a ≤ keyY b)) (fs.map fun f => ⟨some (boxOf f), f, false⟩)

def rootSize : Option (Node Env Facet) → Nat
  | none => 0
  | some r => r.numNodes

/-- nearest facet of the tree to the facet `fa`, by branch and bound -/
def nearestFacet (root : Option (Node Env Facet)) (fa : Facet) : Option (Q × Facet) :=
  nearestRoot Q.le (envLB (boxOf fa)) (fun fb => fdist fa fb) (rootSize root) root

/-- facet distance computed with the branch-and-bound search (one query per facet of `A`) -/
def bbFacetDist2 (cap : Nat) (A B : IGeom) : Option Q :=
  let tree := facetTree cap (facets B)
  minOver Q.le ((facets A).filterMap fun fa => (nearestFacet tree fa).map (·.1))

end GeosModel.Distance
