/-
C19 — linear referencing arithmetic (`geos::linearref`), generic over a numeric carrier.

Mirrors, function by function,
  LinearIterator            → `items`            (the sequence of iterator positions: segments and end-of-line stops)
  LinearLocation            → `Loc`, `mkLoc` (constructor + `normalize`), `endLoc` (`setToEnd`), `Loc.cmp` (`compareTo`)
  LengthLocationMap         → `getLocationForward`, `getLocation`, `getLocationR` (with `resolveHigher`), `getLength`
  LengthIndexedLine         → `positiveIndex`, `clampIndex`, `extractLine`
  ExtractLineByLocation     → `computeLinear`, `extract` (+ LinearGeometryBuilder with fixInvalidLines)

A linear geometry is abstracted to the list of its components, each the list of its **segment lengths** (a component
with k segments has k+1 vertices).  The lengths are inputs: the code obtains them with `sqrt` (`Coordinate::distance`)
and the driver does the same with `Float.sqrt`; the theorems (Props/C19.lean) take them as arbitrary non-negative rationals.

The carrier only needs `+ − × ÷ < ≤ ==` and the literals 0 and 1; the driver instantiates it with `Float` (hardware
binary64, same operations in the same order as the C++), the theorems with `Rat`.  NaN is excluded by the property.
Core Lean only.
-/
namespace GeosModel.LinRef

variable {α : Type} [Add α] [Sub α] [Mul α] [Div α] [LT α] [LE α] [DecidableLT α] [DecidableLE α] [BEq α]
  [OfNat α 0] [OfNat α 1]

/-- `LinearLocation`: component index, segment index, segment fraction -/
structure Loc (α : Type) where
  comp : Nat
  seg : Nat
  frac : α
deriving Repr, BEq, DecidableEq

/-- a linear geometry: components, each given by its list of segment lengths -/
abbrev Line (α : Type) := List (List α)

/-- well-formed: every component has at least one segment (a LineString has 0 or ≥ 2 points; empty components excluded) -/
def Line.WF (l : Line α) : Bool := l.all (fun c => !c.isEmpty)

/-- `LinearLocation(comp, seg, frac)` = field assignment followed by `normalize()` -/
def mkLoc (c s : Nat) (f : α) : Loc α :=
  let f := if f < 0 then 0 else f
  let f := if 1 < f then 1 else f
  if f == 1 then ⟨c, s + 1, 0⟩ else ⟨c, s, f⟩

/-- `LinearLocation()` -/
def startLoc : Loc α := ⟨0, 0, 0⟩

/-- `LinearLocation::setToEnd` (no normalisation: fraction stays 1.0) -/
def endLoc (l : Line α) : Loc α :=
  match l.getLast? with
  | none => ⟨0, 0, 0⟩
  | some c => ⟨l.length - 1, c.length, 1⟩

/-- `compareTo` / `compareLocationValues` as a strict "less than" and "less or equal" -/
def Loc.lt (a b : Loc α) : Bool :=
  if a.comp < b.comp then true else if b.comp < a.comp then false
  else if a.seg < b.seg then true else if b.seg < a.seg then false
  else decide (a.frac < b.frac)

def Loc.isVertex (a : Loc α) : Bool := decide (a.frac ≤ 0) || decide (1 ≤ a.frac)

/-- one position of `LinearIterator`: a segment start (with the segment's length) or the last vertex of a component -/
inductive Item (α : Type) where
  | seg (c v : Nat) (len : α)
  | eol (c v : Nat)
deriving Repr, DecidableEq

def Item.c : Item α → Nat | .seg c _ _ => c | .eol c _ => c
def Item.v : Item α → Nat | .seg _ v _ => v | .eol _ v => v

def compItems (c : Nat) : Nat → List α → List (Item α)
  | v, [] => [.eol c v]
  | v, s :: r => .seg c v s :: compItems c (v + 1) r

/-- the positions visited by `for (LinearIterator it(geom); it.hasNext(); it.next())`, components numbered from `c` -/
def itemsFrom : Nat → Line α → List (Item α)
  | _, [] => []
  | c, comp :: r => compItems c 0 comp ++ itemsFrom (c + 1) r

def items (l : Line α) : List (Item α) := itemsFrom 0 l

/-- `acc += x` over a list (the summation order of `Length::ofLine` / `GeometryCollection::getLength`) -/
def sumFrom (acc : α) : List α → α
  | [] => acc
  | x :: r => sumFrom (acc + x) r

def compLen (c : List α) : α := sumFrom 0 c

/-- `Geometry::getLength()` of the linear geometry -/
def totalLen (l : Line α) : α := sumFrom 0 (l.map compLen)

/-- loop of `LengthLocationMap::getLocationForward`; `none` = loop ran off the end -/
def locFwdAux (ℓ : α) : α → List (Item α) → Option (Loc α)
  | _, [] => none
  | tot, .eol c v :: r => if tot == ℓ then some (mkLoc c v 0) else locFwdAux ℓ tot r
  | tot, .seg c v s :: r =>
    if ℓ < tot + s then some (mkLoc c v ((ℓ - tot) / s)) else locFwdAux ℓ (tot + s) r

def getLocationForward (l : Line α) (ℓ : α) : Loc α :=
  if ℓ ≤ 0 then startLoc else (locFwdAux ℓ 0 (items l)).getD (endLoc l)

/-- `LengthLocationMap::getLocation(length)`: negative lengths are measured from the end -/
def getLocation (l : Line α) (ℓ : α) : Loc α :=
  getLocationForward l (if ℓ < 0 then totalLen l + ℓ else ℓ)

/-- `LinearLocation::isEndpoint` -/
def isEndpoint (l : Line α) (a : Loc α) : Bool :=
  match l[a.comp]? with
  | some c => decide (c.length ≤ a.seg)
  | none => true

/-- the `do { compIndex++ } while (compIndex < n-1 && length(comp) == 0)` loop of `resolveHigher`, on the components after `ci` -/
def skipZero (n : Nat) : Nat → List (List α) → Nat
  | ci, [] => ci
  | ci, c :: r => if ci < n - 1 && compLen c == (0 : α) then skipZero n (ci + 1) r else ci

def resolveHigher (l : Line α) (a : Loc α) : Loc α :=
  if !isEndpoint l a then a
  else if l.length - 1 ≤ a.comp then a
  else ⟨skipZero l.length (a.comp + 1) (l.drop (a.comp + 1)), 0, 0⟩

/-- `LengthLocationMap::getLocation(length, resolveLower)` -/
def getLocationR (l : Line α) (ℓ : α) (resolveLower : Bool) : Loc α :=
  let a := getLocation l ℓ
  if resolveLower then a else resolveHigher l a

/-- loop of `LengthLocationMap::getLength(loc)` -/
def lenAux (a : Loc α) : α → List (Item α) → α
  | tot, [] => tot
  | tot, .seg c v s :: r => if a.comp == c && a.seg == v then tot + s * a.frac else lenAux a (tot + s) r
  | tot, .eol c _ :: r => if a.comp == c then tot else lenAux a tot r

def getLength (l : Line α) (a : Loc α) : α := lenAux a 0 (items l)

/-- `LengthIndexedLine::positiveIndex` / `clampIndex` -/
def positiveIndex (l : Line α) (i : α) : α := if 0 ≤ i then i else totalLen l + i

def clampIndex (l : Line α) (i : α) : α :=
  let p := positiveIndex l i
  if p < 0 then 0 else if totalLen l < p then totalLen l else p

/-! ### ExtractLineByLocation::computeLinear with LinearGeometryBuilder(fixInvalidLines) -/

/-- builder state: finished lines (reversed) and the open coordinate list -/
structure Builder (α : Type) where
  done : List (List (Loc α))
  cur : Option (List (Loc α))

def Builder.add (b : Builder α) (p : Loc α) : Builder α :=
  { b with cur := some (b.cur.getD [] ++ [p]) }

def Builder.endLine (b : Builder α) : Builder α :=
  match b.cur with
  | none => b
  | some pts =>
    let pts := match pts with
      | [p] => [p, p]      -- fixInvalidLines: duplicate the single point
      | _ => pts
    { done := pts :: b.done, cur := none }

/-- body of the `for (LinearIterator it(line, start); …)` loop over the positions from the start vertex on -/
def extractLoop (e : Loc α) (b : Builder α) : List (Item α) → Builder α
  | [] => b
  | it :: r =>
    if e.lt ⟨it.c, it.v, 0⟩ then b
    else
      let b := b.add ⟨it.c, it.v, 0⟩
      let b := match it with | .eol .. => b.endLine | _ => b
      extractLoop e b r

/-- positions of `LinearIterator(line, comp, vertex)`: drop everything before (comp, vertex) -/
def itemsFromPos (l : Line α) (c v : Nat) : List (Item α) :=
  (items l).dropWhile (fun it => it.c < c || (it.c == c && it.v < v))

/-- `computeLinear(start, end)`: the output lines as lists of locations (vertices have fraction 0) -/
def computeLinear (l : Line α) (s e : Loc α) : List (List (Loc α)) :=
  let b : Builder α := ⟨[], none⟩
  let b := if !s.isVertex then b.add s else b
  let sv := if 0 < s.frac then s.seg + 1 else s.seg
  let b := extractLoop e b (itemsFromPos l s.comp sv)
  let b := if !e.isVertex then b.add e else b
  (b.endLine).done.reverse

/-- `ExtractLineByLocation::extract`: swaps and reverses when `end < start` -/
def extract (l : Line α) (s e : Loc α) : List (List (Loc α)) :=
  if e.lt s then (computeLinear l e s).map List.reverse else computeLinear l s e

/-- `LengthIndexedLine::extractLine(startIndex, endIndex)`: the two locations handed to `extract` -/
def extractLocs (l : Line α) (a b : α) : Loc α × Loc α :=
  let a2 := clampIndex l a
  let b2 := clampIndex l b
  let resolveStartLower := a2 == b2
  (getLocationR l a2 resolveStartLower, getLocation l b2)

def extractLine (l : Line α) (a b : α) : List (List (Loc α)) :=
  let (s, e) := extractLocs l a b
  extract l s e

end GeosModel.LinRef
