import GeosModel.Model.LinRef.Map
/-
C19 — coordinate level of linear referencing: `LengthIndexOfPoint::indexOf` (= `GEOSProject`),
`LinearLocation::getCoordinate` / `pointAlongSegmentByFraction` (= `GEOSInterpolate`), and the C-API wrappers
`GEOSProjectNormalized`, `GEOSInterpolateNormalized`, `GEOSLineSubstring`.

Generic over the carrier and over the square-root operation `sqrt` (the code's `std::sqrt`): the driver passes
`Float.sqrt`, the theorems an exact square root on the arguments that occur.  Core Lean only.
-/
namespace GeosModel.LinRef

variable {α : Type} [Add α] [Sub α] [Mul α] [Div α] [LT α] [LE α] [DecidableLT α] [DecidableLE α] [BEq α]
  [OfNat α 0] [OfNat α 1]

structure P2 (α : Type) where
  x : α
  y : α
deriving Repr, BEq, DecidableEq

/-- `CoordinateXY::equals2D` (operator==) -/
def P2.eq2 (a b : P2 α) : Bool := a.x == b.x && a.y == b.y

/-- a lineal geometry: components × vertices -/
abbrev Geo (α : Type) := List (List (P2 α))

def d2 (a b : P2 α) : α := (a.x - b.x) * (a.x - b.x) + (a.y - b.y) * (a.y - b.y)

/-- `Coordinate::distance` -/
def dist (sqrt : α → α) (a b : P2 α) : α := sqrt (d2 a b)

def pairs : List (P2 α) → List (P2 α × P2 α)
  | a :: b :: r => (a, b) :: pairs (b :: r)
  | _ => []

/-- the abstraction used by `Map.lean`: segment lengths as computed by the code
(`p1.distance(p0)` in LengthLocationMap, `dx = x1 - x0` in `Length::ofLine` — the same value since (−d)² = d²) -/
def lineOf (sqrt : α → α) (g : Geo α) : Line α := g.map fun c => (pairs c).map fun s => dist sqrt s.2 s.1

/-- `LineSegment::projectionFactor` -/
def projectionFactor (p0 p1 p : P2 α) : α :=
  if p.eq2 p0 then 0 else if p.eq2 p1 then 1 else if p0.eq2 p1 then 0
  else
    let dx := p1.x - p0.x
    let dy := p1.y - p0.y
    let len2 := dx * dx + dy * dy
    ((p.x - p0.x) * dx + (p.y - p0.y) * dy) / len2

/-- `LineSegment::segmentFraction` (used by `LocationIndexOfPoint`): the projection factor clamped to [0, 1] -/
def segmentFraction (p0 p1 p : P2 α) : α :=
  let f := projectionFactor p0 p1 p
  if f < 0 then 0 else if 1 < f then 1 else f

def absv (s : α) : α := if s < 0 then 0 - s else s

/-- `algorithm::Distance::pointToSegment` -/
def pointToSegment (sqrt : α → α) (p A B : P2 α) : α :=
  if A.eq2 B then dist sqrt p A
  else
    let len2 := (B.x - A.x) * (B.x - A.x) + (B.y - A.y) * (B.y - A.y)
    let r := ((p.x - A.x) * (B.x - A.x) + (p.y - A.y) * (B.y - A.y)) / len2
    if r ≤ 0 then dist sqrt p A
    else if 1 ≤ r then dist sqrt p B
    else
      let s := ((A.y - p.y) * (B.x - A.x) - (A.x - p.x) * (B.y - A.y)) / len2
      absv s * sqrt len2

/-- `LengthIndexOfPoint::segmentNearestMeasure` -/
def segmentNearestMeasure (sqrt : α → α) (p0 p1 p : P2 α) (start : α) : α :=
  let f := projectionFactor p0 p1 p
  if f ≤ 0 then start
  else if f ≤ 1 then start + f * dist sqrt p0 p1
  else start + dist sqrt p0 p1

/-- `segDistance < minDistance` where `none` stands for the initial `DoubleInfinity` -/
def closer (minD : Option α) (segD : α) : Bool :=
  match minD with
  | none => true
  | some d => decide (segD < d)

/-- loop of `LengthIndexOfPoint::indexOfFromStart(inputPt, minIndex)`; state = (minDistance (none = +∞), ptMeasure, segmentStartMeasure) -/
def indexLoop (sqrt : α → α) (p : P2 α) (minIndex : α) :
    List (P2 α × P2 α) → Option α × α × α → Option α × α × α
  | [], st => st
  | (a, b) :: r, (minD, ptM, start) =>
    let segD := pointToSegment sqrt p a b
    let m := segmentNearestMeasure sqrt a b p start
    let better := closer minD segD && decide (minIndex < m)
    let st' := if better then (some segD, m, start + dist sqrt a b) else (minD, ptM, start + dist sqrt a b)
    indexLoop sqrt p minIndex r st'

/-- `LengthIndexedLine::project` = `indexOfFromStart(pt, -1.0)` over all segments of all components -/
def project (sqrt : α → α) (g : Geo α) (p : P2 α) : α :=
  let minIndex : α := 0 - 1
  (indexLoop sqrt p minIndex (g.flatMap pairs) (none, minIndex, 0)).2.1

/-- `LinearLocation::pointAlongSegmentByFraction` -/
def pointAlong (p0 p1 : P2 α) (f : α) : P2 α :=
  if f ≤ 0 then p0 else if 1 ≤ f then p1
  else ⟨(p1.x - p0.x) * f + p0.x, (p1.y - p0.y) * f + p0.y⟩

/-- `LinearLocation::getCoordinate` (`none` = null coordinate / index outside the geometry) -/
def coordAt (g : Geo α) (a : Loc α) : Option (P2 α) :=
  match g[a.comp]? with
  | none => none
  | some c =>
    match c[a.seg]? with
    | none => none
    | some p0 =>
      if c.length - 1 ≤ a.seg then some p0
      else match c[a.seg + 1]? with
        | some p1 => some (pointAlong p0 p1 a.frac)
        | none => some p0

/-- `LengthIndexedLine::extractPoint(index)` = `GEOSInterpolate` -/
def interpolate (sqrt : α → α) (g : Geo α) (d : α) : Option (P2 α) :=
  coordAt g (getLocation (lineOf sqrt g) d)

/-- `GEOSProjectNormalized_r` (−1 = error return) given `distance = GEOSProject` and `length = GEOSLength`; finiteness is the caller's concern -/
def projectNormalized (distance length : α) : α :=
  if distance == 0 && length == (0 : α) then 0
  else if distance < 0 || length == (0 : α) then 0 - 1
  else distance / length

/-- `GEOSLineSubstring_r`: `none` = IllegalArgumentException; otherwise the lines as coordinates -/
def lineSubstring (sqrt : α → α) (g : Geo α) (f0 f1 : α) : Option (List (List (Option (P2 α)))) :=
  if f0 < 0 || f1 < 0 || 1 < f0 || 1 < f1 then none
  else
    let l := lineOf sqrt g
    let len := totalLen l
    some ((extractLine l (f0 * len) (f1 * len)).map fun ln => ln.map (coordAt g))

end GeosModel.LinRef
