import GeosModel.Base.GTree
/-!
Model of GEOS normalisation and its companions on the shared geometry value `GeosModel.G`:

* `Polygon::normalize()` / `Polygon::normalize(LinearRing*, bool clockwise)`            (src/geom/Polygon.cpp)
* `SimpleCurve::normalize()` / `normalizeClosed()` (LineString and LinearRing)           (src/geom/SimpleCurve.cpp)
* `GeometryCollection::normalize()` (all Multi* and GeometryCollection)                  (src/geom/GeometryCollection.cpp)
* `Geometry::compareTo`, `getSortIndex`, `compareToSameClass` of every class,
  `Geometry::compare(vector, vector)`                                                    (src/geom/Geometry.cpp, Surface.cpp, ...)
* `CoordinateXY::compareTo`, `CoordinateSequence::{minCoordinate, indexOf, scroll, closeRing, reverse}`
* `reverse()`, `clone()`, `equalsExact(·, 0)`, `equalsIdentical`.

Everything is parametric in a `Cfg`:
* `key : UInt64 → Int` — the (total pre-)order on ordinates.  `CoordinateXY::compareTo` is the lexicographic
  comparison of `(key x, key y)` and `operator==`/`equals2D` is equality of that pair.  The driver instantiates it
  with `F64.key` (value order of non-NaN doubles, −0 = +0); NaN ordinates are outside the model.
* `isCCW : List Coord → Bool` — `algorithm::Orientation::isCCW` applied to a *closed* coordinate list.  The driver
  instantiates it with `Norm.isCCWExact` (Model/Norm/Orientation.lean), a transcription of the C++ loop over exact
  integers.  The theorems only use the hypotheses they state about it.

Quirks of the code that are modelled on purpose:
* `Polygon::normalize(ring, cw)` re-closes the rotated ring with `closeRing()` whose default
  `allowRepeated = false` *does not append* the closing point when the rotated open ring already starts and ends
  with the same XY; `SimpleCurve::normalizeClosed` uses `closeRing(true)`.
* `scroll` goes to the *first* occurrence of the minimum coordinate.
* a hole is reversed whenever `isCCW` answers `false` — also for flat rings, for which it answers `false` in both
  directions.
* `std::sort` is modelled as a *stable* descending insertion sort (what libstdc++ does for ≤ 16 elements; for a
  comparison that is a total preorder the result is determined up to the order of `compareTo`-equal elements).
* CircularString / CompoundCurve / CurvePolygon make `normalize` throw (`unsupported`); `normalize` leaves them alone.

Core Lean only (linked into the driver).
-/
namespace GeosModel.Norm

structure Cfg where
  key : UInt64 → Int
  isCCW : List Coord → Bool

/-! ## comparison keys -/

/-- keyed XY of a coordinate -/
abbrev KP := Int × Int

def cmpInt (a b : Int) : Int := if a < b then -1 else if b < a then 1 else 0

/-- lexicographic combination of two comparison results -/
def lex (p q : Int) : Int := if p = 0 then q else p

/-- `CoordinateXY::compareTo` on keyed coordinates -/
def cmpPt (a b : KP) : Int := lex (cmpInt a.1 b.1) (cmpInt a.2 b.2)

/-- element-wise lexicographic comparison (a proper prefix is smaller; GEOS only calls it on equal lengths) -/
def cmpPts : List KP → List KP → Int
  | [], [] => 0
  | [], _ :: _ => -1
  | _ :: _, [] => 1
  | a :: as, b :: bs => lex (cmpPt a b) (cmpPts as bs)

/-- `SimpleCurve::compareToSameClass`: number of points first, then the points.  Because an empty sequence is
the shortest, this is also `compareTo` of two LinearRings / LineStrings including the emptiness rule. -/
def cmpSeq (p q : List KP) : Int := lex (cmpInt p.length q.length) (cmpPts p q)

def cmpSeqs : List (List KP) → List (List KP) → Int
  | [], [] => 0
  | [], _ :: _ => -1
  | _ :: _, [] => 1
  | a :: as, b :: bs => lex (cmpSeq a b) (cmpSeqs as bs)

/-- what `compareTo` looks at: sort index, keyed XY, nesting -/
inductive K where
  | leaf (idx : Nat) (pts : List KP)
  | poly (shell : List KP) (holes : List (List KP))
  | node (idx : Nat) (kids : List K)
deriving Repr, Inhabited

/-- the sort index refined by the shape, so that equal rank implies equal shape (for trees coming from `G` the
sort index already determines the shape) -/
def K.rank : K → Nat
  | .leaf i _ => 3 * i
  | .poly _ _ => 3 * 5 + 1
  | .node i _ => 3 * i + 2

mutual
  def K.isEmpty : K → Bool
    | .leaf _ p => p.isEmpty
    | .poly s _ => s.isEmpty
    | .node _ ks => K.allEmpty ks
  def K.allEmpty : List K → Bool
    | [] => true
    | k :: ks => k.isEmpty && K.allEmpty ks
end

/-- the head of `Geometry::compareTo`: sort index, then the emptiness rule, then `compareToSameClass` (`body`) -/
def cmpHead (ra rb : Nat) (ea eb : Bool) (body : Int) : Int :=
  if ra < rb then -1 else if rb < ra then 1
  else if ea && eb then 0 else if ea then -1 else if eb then 1 else body

mutual
  /-- `Geometry::compareTo` -/
  def cmpK : K → K → Int
    | .leaf i p, b => cmpHead (K.rank (.leaf i p)) b.rank p.isEmpty b.isEmpty
        (match b with | .leaf _ q => cmpSeq p q | _ => 0)
    | .poly s hs, b => cmpHead (K.rank (.poly s hs)) b.rank s.isEmpty b.isEmpty
        (match b with
         | .poly s' hs' => lex (cmpSeq s s') (lex (cmpInt hs.length hs'.length) (cmpSeqs hs hs'))
         | _ => 0)
    | .node i ks, b => cmpHead (K.rank (.node i ks)) b.rank (K.allEmpty ks) b.isEmpty
        (match b with | .node _ ks' => cmpKs ks ks' | _ => 0)
  /-- `Geometry::compare(vector, vector)` -/
  def cmpKs : List K → List K → Int
    | [], [] => 0
    | [], _ :: _ => -1
    | _ :: _, [] => 1
    | a :: as, b :: bs => lex (cmpK a b) (cmpKs as bs)
end

/-! ## stable descending sort (`std::sort(.., a.compareTo(b) > 0)`) -/

section SortSec
variable {α : Type}

/-- insert `x` (which stood before every element of the list) keeping equal elements in input order:
`x` goes in front of the first element that is not strictly greater -/
def insertDesc (cmp : α → α → Int) (x : α) : List α → List α
  | [] => [x]
  | y :: ys => if cmp y x > 0 then y :: insertDesc cmp x ys else x :: y :: ys

def sortDesc (cmp : α → α → Int) : List α → List α
  | [] => []
  | x :: xs => insertDesc cmp x (sortDesc cmp xs)

end SortSec

/-! ## coordinates -/

def kp (c : Cfg) (a : Coord) : KP := (c.key a.x, c.key a.y)

/-- `CoordinateXY::compareTo` -/
def cmpXY (c : Cfg) (a b : Coord) : Int := cmpPt (kp c a) (kp c b)

/-- `operator==(CoordinateXY, CoordinateXY)` / `equals2D` -/
def eqXY (c : Cfg) (a b : Coord) : Bool := decide (kp c a = kp c b)

def keyPts (c : Cfg) (s : CSeq) : List KP := s.pts.map (kp c)

/-- `CoordinateSequence::minCoordinate`: the first coordinate that is not greater than any other -/
def minCoord (c : Cfg) : List Coord → Option Coord
  | [] => none
  | p :: r => some (r.foldl (fun m q => if cmpXY c m q > 0 then q else m) p)

/-- `CoordinateSequence::indexOf` (first index equal in XY; the length when absent) -/
def indexOf (c : Cfg) (m : Coord) : List Coord → Nat
  | [] => 0
  | p :: r => if eqXY c m p then 0 else indexOf c m r + 1

/-- `CoordinateSequence::scroll(cl, cl->minCoordinate())` -/
def scroll (c : Cfg) (l : List Coord) : List Coord :=
  match minCoord c l with
  | none => l
  | some m =>
    let i := indexOf c m l
    if i = 0 ∨ l.length ≤ i then l else l.drop i ++ l.take i

/-- `CoordinateSequence::closeRing(allowRepeated)` -/
def closeRing (c : Cfg) (allowRepeated : Bool) : List Coord → List Coord
  | [] => []
  | a :: t =>
    if allowRepeated || !(eqXY c a ((a :: t).getLast (by simp))) then (a :: t) ++ [a] else a :: t

/-- `Polygon::normalize(LinearRing*, bool clockwise)` on the coordinate list -/
def normRingPts (c : Cfg) (cw : Bool) (l : List Coord) : List Coord :=
  match l with
  | [] => []
  | _ :: _ =>
    let cl := closeRing c false (scroll c l.dropLast)
    if c.isCCW cl == cw then cl.reverse else cl

def normRing (c : Cfg) (cw : Bool) (s : CSeq) : CSeq := { s with pts := normRingPts c cw s.pts }

/-- result of the loop in `SimpleCurve::normalize` over the pairs `(pts[i], pts[n-1-i])`, `i < n/2`:
the `compareTo` of the first pair that differs in XY (0 if none) -/
def firstDiff (c : Cfg) : List (Coord × Coord) → Int
  | [] => 0
  | (a, b) :: r => if eqXY c a b then firstDiff c r else cmpXY c a b

def normOpenPts (c : Cfg) (l : List Coord) : List Coord :=
  if firstDiff c ((l.zip l.reverse).take (l.length / 2)) > 0 then l.reverse else l

/-- `SimpleCurve::normalizeClosed` -/
def normClosedPts (c : Cfg) (l : List Coord) : List Coord :=
  let cl := closeRing c true (scroll c l.dropLast)
  if 4 ≤ cl.length && c.isCCW cl then cl.reverse else cl

/-- `SimpleCurve::isClosed` -/
def isClosedPts (c : Cfg) : List Coord → Bool
  | [] => false
  | a :: t => eqXY c a ((a :: t).getLast (by simp))

/-- `SimpleCurve::normalize` on a LineString / LinearRing -/
def normLinePts (c : Cfg) (l : List Coord) : List Coord :=
  if l.isEmpty then l else if isClosedPts c l then normClosedPts c l else normOpenPts c l

def normLine (c : Cfg) (s : CSeq) : CSeq := { s with pts := normLinePts c s.pts }

/-! ## the geometry tree -/

mutual
  def toK (c : Cfg) : G → K
    | .point s => .leaf 0 (keyPts c s)
    | .lineString s => .leaf 2 (keyPts c s)
    | .linearRing s => .leaf 3 (keyPts c s)
    | .circularString s => .leaf 2 (keyPts c s)       -- CircularString::getSortIndex = SORTINDEX_LINESTRING
    | .polygon sh hs => .poly (keyPts c sh) (hs.map (keyPts c))
    | .compoundCurve gs => .node 9 (toKs c gs)
    | .curvePolygon gs => .node 10 (toKs c gs)         -- never compared by a successful normalize
    | .multiPoint gs => .node 1 (toKs c gs)
    | .multiLineString gs => .node 4 (toKs c gs)
    | .multiPolygon gs => .node 6 (toKs c gs)
    | .multiCurve gs => .node 11 (toKs c gs)
    | .multiSurface gs => .node 12 (toKs c gs)
    | .collection gs => .node 7 (toKs c gs)
  def toKs (c : Cfg) : List G → List K
    | [] => []
    | g :: gs => toK c g :: toKs c gs
end

/-- `a->compareTo(b)` -/
def cmpG (c : Cfg) (a b : G) : Int := cmpK (toK c a) (toK c b)

/-- `compareTo` of two LinearRings given by their sequences (the hole sort of `Polygon::normalize`) -/
def cmpRingSeq (c : Cfg) (a b : CSeq) : Int := cmpK (.leaf 3 (keyPts c a)) (.leaf 3 (keyPts c b))

mutual
  /-- `Geometry::normalize()` (curved components are left alone; see `unsupported`) -/
  def normalize (c : Cfg) : G → G
    | .point s => .point s
    | .lineString s => .lineString (normLine c s)
    | .linearRing s => .linearRing (normLine c s)
    | .circularString s => .circularString s
    | .polygon sh hs => .polygon (normRing c true sh) (sortDesc (cmpRingSeq c) (hs.map (normRing c false)))
    | .compoundCurve gs => .compoundCurve gs
    | .curvePolygon gs => .curvePolygon gs
    | .multiPoint gs => .multiPoint (sortDesc (cmpG c) (normalizeL c gs))
    | .multiLineString gs => .multiLineString (sortDesc (cmpG c) (normalizeL c gs))
    | .multiPolygon gs => .multiPolygon (sortDesc (cmpG c) (normalizeL c gs))
    | .multiCurve gs => .multiCurve (sortDesc (cmpG c) (normalizeL c gs))
    | .multiSurface gs => .multiSurface (sortDesc (cmpG c) (normalizeL c gs))
    | .collection gs => .collection (sortDesc (cmpG c) (normalizeL c gs))
  def normalizeL (c : Cfg) : List G → List G
    | [] => []
    | g :: gs => normalize c g :: normalizeL c gs
end

mutual
  /-- `normalize()` throws `UnsupportedOperationException` -/
  def unsupported : G → Bool
    | .circularString _ => true
    | .compoundCurve _ => true
    | .curvePolygon _ => true
    | .point _ => false
    | .lineString _ => false
    | .linearRing _ => false
    | .polygon _ _ => false
    | .multiPoint gs => unsupportedL gs
    | .multiLineString gs => unsupportedL gs
    | .multiPolygon gs => unsupportedL gs
    | .multiCurve gs => unsupportedL gs
    | .multiSurface gs => unsupportedL gs
    | .collection gs => unsupportedL gs
  def unsupportedL : List G → Bool
    | [] => false
    | g :: gs => unsupported g || unsupportedL gs
end

/-- `GEOSNormalize_r`: error, or the normalised geometry -/
def normalizeApi (c : Cfg) (g : G) : Option G := if unsupported g then none else some (normalize c g)

def revSeq (s : CSeq) : CSeq := { s with pts := s.pts.reverse }

mutual
  /-- `Geometry::reverse()` -/
  def reverse : G → G
    | .point s => .point s
    | .lineString s => .lineString (revSeq s)
    | .linearRing s => .linearRing (revSeq s)
    | .circularString s => .circularString (revSeq s)
    | .polygon sh hs => .polygon (revSeq sh) (hs.map revSeq)
    | .compoundCurve gs => .compoundCurve (reverseRevL gs [])
    | .curvePolygon gs => .curvePolygon (reverseL gs)
    | .multiPoint gs => .multiPoint gs                       -- MultiPoint::reverseImpl = copy
    | .multiLineString gs => .multiLineString (reverseL gs)
    | .multiPolygon gs => .multiPolygon (reverseL gs)
    | .multiCurve gs => .multiCurve (reverseL gs)
    | .multiSurface gs => .multiSurface (reverseL gs)
    | .collection gs => .collection (reverseL gs)
  def reverseL : List G → List G
    | [] => []
    | g :: gs => reverse g :: reverseL gs
  /-- sections of a CompoundCurve: each reversed, in reverse order (accumulator version of `(map reverse).reverse`) -/
  def reverseRevL : List G → List G → List G
    | [], acc => acc
    | g :: gs, acc => reverseRevL gs (reverse g :: acc)
end

/-- `Geometry::clone()` -/
def clone (g : G) : G := g

/-! ## exact equality -/

/-- `equalsExact` of two coordinate sequences with tolerance 0: same length, equal XY -/
def eqSeqExact (c : Cfg) (s t : CSeq) : Bool := decide (keyPts c s = keyPts c t)

/-- an ordinate pair is "identical" when equal as doubles or both NaN; `nanLike` recognises NaN bit patterns -/
structure IdCfg where
  key : UInt64 → Int
  isNaN : UInt64 → Bool

def eqOrdId (d : IdCfg) (a b : UInt64) : Bool := (d.isNaN a && d.isNaN b) || (!d.isNaN a && !d.isNaN b && decide (d.key a = d.key b))

def eqCoordId (d : IdCfg) (a b : Coord) : Bool :=
  eqOrdId d a.x b.x && eqOrdId d a.y b.y && eqOrdId d a.z b.z && eqOrdId d a.m b.m

def eqPtsId (d : IdCfg) : List Coord → List Coord → Bool
  | [], [] => true
  | a :: as, b :: bs => eqCoordId d a b && eqPtsId d as bs
  | _, _ => false

/-- `CoordinateSequence::equalsIdentical` -/
def eqSeqId (d : IdCfg) (s t : CSeq) : Bool := s.hasZ == t.hasZ && s.hasM == t.hasM && eqPtsId d s.pts t.pts

def eqSeqsWith (f : CSeq → CSeq → Bool) : List CSeq → List CSeq → Bool
  | [], [] => true
  | a :: as, b :: bs => f a b && eqSeqsWith f as bs
  | _, _ => false

mutual
  /-- structural equality of two geometries: same class, same shape, sequences related by `f`
  (`equalsExact(·, 0)` with `f = eqSeqExact c`, `equalsIdentical` with `f = eqSeqId d`) -/
  def eqWith (f : CSeq → CSeq → Bool) : G → G → Bool
    | .point s, .point t => f s t
    | .lineString s, .lineString t => f s t
    | .linearRing s, .linearRing t => f s t
    | .circularString s, .circularString t => f s t
    | .polygon sh hs, .polygon sh' hs' => f sh sh' && eqSeqsWith f hs hs'
    | .compoundCurve gs, .compoundCurve hs => eqWithL f gs hs
    | .curvePolygon gs, .curvePolygon hs => eqWithL f gs hs
    | .multiPoint gs, .multiPoint hs => eqWithL f gs hs
    | .multiLineString gs, .multiLineString hs => eqWithL f gs hs
    | .multiPolygon gs, .multiPolygon hs => eqWithL f gs hs
    | .multiCurve gs, .multiCurve hs => eqWithL f gs hs
    | .multiSurface gs, .multiSurface hs => eqWithL f gs hs
    | .collection gs, .collection hs => eqWithL f gs hs
    | _, _ => false
  def eqWithL (f : CSeq → CSeq → Bool) : List G → List G → Bool
    | [], [] => true
    | a :: as, b :: bs => eqWith f a b && eqWithL f as bs
    | _, _ => false
end

/-- `Geometry::equalsExact(other, 0.0)` -/
def equalsExact (c : Cfg) (g h : G) : Bool := eqWith (eqSeqExact c) g h

/-- `Geometry::equalsIdentical(other)` -/
def equalsIdentical (d : IdCfg) (g h : G) : Bool := eqWith (eqSeqId d) g h

/-! ## counts and dimension -/

def sumSeqLen : List CSeq → Nat
  | [] => 0
  | s :: r => s.pts.length + sumSeqLen r

mutual
  /-- `getNumPoints()` -/
  def numPoints : G → Nat
    | .point s => s.pts.length
    | .lineString s => s.pts.length
    | .linearRing s => s.pts.length
    | .circularString s => s.pts.length
    | .polygon sh hs => sh.pts.length + sumSeqLen hs
    | .compoundCurve gs => numPointsL gs
    | .curvePolygon gs => numPointsL gs
    | .multiPoint gs => numPointsL gs
    | .multiLineString gs => numPointsL gs
    | .multiPolygon gs => numPointsL gs
    | .multiCurve gs => numPointsL gs
    | .multiSurface gs => numPointsL gs
    | .collection gs => numPointsL gs
  def numPointsL : List G → Nat
    | [] => 0
    | g :: gs => numPoints g + numPointsL gs
end

/-- `getNumGeometries()` -/
def numGeoms : G → Nat
  | .multiPoint gs => gs.length
  | .multiLineString gs => gs.length
  | .multiPolygon gs => gs.length
  | .multiCurve gs => gs.length
  | .multiSurface gs => gs.length
  | .collection gs => gs.length
  | _ => 1

/-- number of interior rings of a polygon (0 otherwise) -/
def numHoles : G → Nat
  | .polygon _ hs => hs.length
  | _ => 0

mutual
  /-- `getDimension()`: 0 points, 1 curves, 2 surfaces; collections take the maximum (`-1` → here 0 shifted:
  we return dimension + 1 so that the empty collection's `Dimension::False` is 0) -/
  def dimP1 : G → Nat
    | .point _ => 1
    | .lineString _ => 2
    | .linearRing _ => 2
    | .circularString _ => 2
    | .polygon _ _ => 3
    | .compoundCurve _ => 2
    | .curvePolygon _ => 3
    | .multiPoint _ => 1
    | .multiLineString _ => 2
    | .multiPolygon _ => 3
    | .multiCurve _ => 2
    | .multiSurface _ => 3
    | .collection gs => dimP1L gs
  def dimP1L : List G → Nat
    | [] => 0
    | g :: gs => max (dimP1 g) (dimP1L gs)
end

end GeosModel.Norm
