import GeosModel.Model.Norm.Normalize
/-!
Decidable (Bool) versions of the hypotheses of the C20 normalisation theorems, used by the driver to say *why* a
geometry falls outside `normalize_idem_partial` / `normalize_canonical_partial` (the check turns the class into
the signature of a finding).  Core Lean only.
-/
namespace GeosModel.Norm

/-- number of coordinates of an open ring whose XY equals that of its minimum coordinate -/
def minCount (c : Cfg) (o : List Coord) : Nat :=
  match minCoord c o with
  | none => 0
  | some m => (o.filter fun x => eqXY c m x).length

/-- the ring's smallest vertex occurs more than once among its distinct positions (closing point excluded) -/
def ringRepeatedMin (c : Cfg) (pts : List Coord) : Bool := decide (1 < minCount c pts.dropLast)

/-- the rotated, re-closed ring on which `isCCW` is asked -/
def ringScrolled (c : Cfg) (pts : List Coord) : List Coord := closeRing c true (scroll c pts.dropLast)

/-- `isCCW` does not tell the ring from its reverse (flat / degenerate ring) -/
def ringUndecided (c : Cfg) (pts : List Coord) : Bool :=
  !pts.isEmpty && (c.isCCW (ringScrolled c pts).reverse == c.isCCW (ringScrolled c pts))


/-! ### the hypotheses of the C20 normalisation theorems, as Bool functions -/

/-- polygon ring (role `cw`): unique minimum vertex, at least two distinct positions, and the orientation test does
not ask for a reversal in both directions -/
def ringIdemOK (c : Cfg) (cw : Bool) (pts : List Coord) : Bool :=
  pts.isEmpty || (minCount c pts.dropLast == 1 && decide (2 ≤ pts.dropLast.length) &&
    !(c.isCCW (ringScrolled c pts) == cw && c.isCCW (ringScrolled c pts).reverse == cw))

/-- polygon ring: unique minimum vertex and `isCCW` tells the ring from its reverse -/
def ringCanonOK (c : Cfg) (pts : List Coord) : Bool :=
  pts.isEmpty || (minCount c pts.dropLast == 1 && decide (2 ≤ pts.dropLast.length) &&
    (c.isCCW (ringScrolled c pts).reverse == !c.isCCW (ringScrolled c pts)))

/-- LineString / LinearRing: an open line always qualifies; a closed one must not be counter-clockwise in both directions -/
def lineIdemOK (c : Cfg) (pts : List Coord) : Bool :=
  pts.isEmpty || !isClosedPts c pts || (decide (2 ≤ pts.length) &&
    !(decide (4 ≤ (ringScrolled c pts).length) && c.isCCW (ringScrolled c pts) && c.isCCW (ringScrolled c pts).reverse))

/-- LineString / LinearRing: a closed one needs a unique minimum vertex, at least 4 points and a decisive `isCCW` -/
def lineCanonOK (c : Cfg) (pts : List Coord) : Bool :=
  pts.isEmpty || !isClosedPts c pts || (minCount c pts.dropLast == 1 && decide (4 ≤ (ringScrolled c pts).length) &&
    (c.isCCW (ringScrolled c pts).reverse == !c.isCCW (ringScrolled c pts)))

mutual
  /-- hypothesis of `normalize_idem_partial` -/
  def idemOK (c : Cfg) : G → Bool
    | .polygon sh hs => ringIdemOK c true sh.pts && hs.all (fun h => ringIdemOK c false h.pts)
    | .lineString s => lineIdemOK c s.pts
    | .linearRing s => lineIdemOK c s.pts
    | .multiPoint gs => idemOKL c gs
    | .multiLineString gs => idemOKL c gs
    | .multiPolygon gs => idemOKL c gs
    | .multiCurve gs => idemOKL c gs
    | .multiSurface gs => idemOKL c gs
    | .collection gs => idemOKL c gs
    | .point _ => true
    | .circularString _ => true
    | .compoundCurve _ => true
    | .curvePolygon _ => true
  def idemOKL (c : Cfg) : List G → Bool
    | [] => true
    | g :: gs => idemOK c g && idemOKL c gs
end

/-- structural (bit-for-bit) equality of geometries -/
def sameG (a b : G) : Bool := eqWith (fun s t => decide (s = t)) a b

/-- two neighbours of a sorted sibling list compare equal although they are different values -/
def hasTie {α : Type} (cmp : α → α → Int) (same : α → α → Bool) : List α → Bool
  | a :: b :: r => (cmp a b == 0 && !same a b) || hasTie cmp same (b :: r)
  | _ => false

/-- an open line whose XY reads the same in both directions but which is not literally a palindrome -/
def linePalindromeIssue (c : Cfg) (pts : List Coord) : Bool :=
  !pts.isEmpty && !isClosedPts c pts &&
  firstDiff c ((pts.zip pts.reverse).take (pts.length / 2)) == 0 && decide (pts.reverse ≠ pts)

def lineIssues (c : Cfg) (pts : List Coord) : List String :=
  if pts.isEmpty then [] else
  if isClosedPts c pts then
    (if ringRepeatedMin c pts then ["repeated-min-vertex"] else []) ++
    (if ringUndecided c pts then ["flat-ring-orientation"] else [])
  else if linePalindromeIssue c pts then ["xy-palindrome-line"] else []

def ringIssues (c : Cfg) (pts : List Coord) : List String :=
  if pts.isEmpty then [] else
  (if ringRepeatedMin c pts then ["repeated-min-vertex"] else []) ++
  (if ringUndecided c pts then ["flat-ring-orientation"] else [])

mutual
  def issues (c : Cfg) : G → List String
    | .point _ => []
    | .lineString s => lineIssues c s.pts
    | .linearRing s => lineIssues c s.pts
    | .circularString _ => ["unsupported"]
    | .compoundCurve _ => ["unsupported"]
    | .curvePolygon _ => ["unsupported"]
    | .polygon sh hs =>
      ringIssues c sh.pts ++ hs.flatMap (fun h => ringIssues c h.pts) ++
      (if hasTie (cmpRingSeq c) (fun s t => decide (s = t)) (sortDesc (cmpRingSeq c) (hs.map (normRing c false)))
       then ["compare-equal-elements-differ"] else [])
    | .multiPoint gs => issuesL c gs ++ tieIssue c gs
    | .multiLineString gs => issuesL c gs ++ tieIssue c gs
    | .multiPolygon gs => issuesL c gs ++ tieIssue c gs
    | .multiCurve gs => issuesL c gs ++ tieIssue c gs
    | .multiSurface gs => issuesL c gs ++ tieIssue c gs
    | .collection gs => issuesL c gs ++ tieIssue c gs
  def issuesL (c : Cfg) : List G → List String
    | [] => []
    | g :: gs => issues c g ++ issuesL c gs
  def tieIssue (c : Cfg) (gs : List G) : List String :=
    if hasTie (cmpG c) sameG (sortDesc (cmpG c) (normalizeL c gs)) then ["compare-equal-elements-differ"] else []
end

/-- the first applicable class in a fixed priority order (`ok` when every hypothesis holds) -/
def hypClass (c : Cfg) (g : G) : String :=
  let is := issues c g
  match ["unsupported", "repeated-min-vertex", "flat-ring-orientation", "compare-equal-elements-differ",
         "xy-palindrome-line"].find? (fun k => is.contains k) with
  | some k => k
  | none => "ok"

end GeosModel.Norm
