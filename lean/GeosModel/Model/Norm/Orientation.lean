import GeosModel.Base.F64
import GeosModel.Base.Kernel
import GeosModel.Model.Norm.Normalize
/-!
`algorithm::Orientation::isCCW(const CoordinateSequence*)` (src/algorithm/Orientation.cpp) transcribed over exact
integers: the XY of the ring are brought to a common power of two with `F64.scaleAll` (an order-preserving,
orientation-preserving scaling), comparisons of Y, the sign of `delX` and `Orientation::index` (the robust
orientation predicate, exact for the inputs of the correspondence streams) are then exact integer operations.

Core Lean only (linked into the driver).
-/
namespace GeosModel.Norm
open GeosModel.Kernel

/-- the scan `for i in 1..nPts` that finds the first highest point reached by a rising segment:
state = (prevY, iUpHi, hiY); `i` is the index of the head of the list -/
def upHiScan : Int → Nat → Int → Nat → List Int → Nat
  | _, iUpHi, _, _, [] => iUpHi
  | prevY, iUpHi, hiY, i, py :: r =>
    if py > prevY ∧ py ≥ hiY then upHiScan py i py (i + 1) r else upHiScan py iUpHi hiY (i + 1) r

/-- the `do … while` loop looking for the next point below the high point (wraps modulo `nPts`) -/
def downLowScan (ys : List Int) (nPts iUpHi : Nat) (hiY : Int) : Nat → Nat → Nat
  | 0, i => i
  | fuel + 1, i =>
    let j := (i + 1) % nPts
    if j ≠ iUpHi ∧ ys.getD j 0 = hiY then downLowScan ys nPts iUpHi hiY fuel j else j

/-- `Orientation::isCCW` on a closed ring of exact points -/
def isCCWPts (ring : List Pt) : Bool :=
  let n := ring.length
  if n < 4 then false else
  let nPts := n - 1
  let ys := ring.map (·.y)
  let y0 := ys.getD 0 0
  let iUpHi := upHiScan y0 0 y0 1 ys.tail
  if iUpHi = 0 then false else
  let upHi := ring.getD (iUpHi) ⟨0, 0⟩
  let upLow := ring.getD (iUpHi - 1) ⟨0, 0⟩
  let iDownLow := downLowScan ys nPts iUpHi upHi.y (nPts + 1) iUpHi
  let downLow := ring.getD (iDownLow) ⟨0, 0⟩
  let iDownHi := if iDownLow > 0 then iDownLow - 1 else nPts - 1
  let downHi := ring.getD (iDownHi) ⟨0, 0⟩
  if upHi = downHi then
    if upLow = upHi ∨ downLow = upHi ∨ upLow = downLow then false
    else orient upLow upHi downLow = 1
  else decide (downHi.x - upHi.x < 0)

def pairUp : List Int → List Pt
  | x :: y :: r => ⟨x, y⟩ :: pairUp r
  | _ => []

/-- XY of a coordinate list as exact integer points over one common power of two (`none` if an ordinate is not finite) -/
def exactPts (l : List Coord) : Option (List Pt) :=
  match F64.scaleAll (l.flatMap fun p => [p.x, p.y]) with
  | none => none
  | some (_, vs) =>
    some (pairUp vs)

/-- `Orientation::isCCW` on double bit patterns -/
def isCCWExact (l : List Coord) : Bool :=
  match exactPts l with
  | some ps => isCCWPts ps
  | none => false

/-- the configuration of the implementation: value order of doubles, exact `isCCW` -/
def geosCfg : Cfg := { key := F64.key, isCCW := isCCWExact }

/-- identical-equality configuration: value equality of doubles, NaN ≡ NaN -/
def geosIdCfg : IdCfg := { key := F64.key, isNaN := F64.isNaN }

end GeosModel.Norm
