/-!
# Threads, sequentially consistent interleavings, data races — executable model (core Lean only)

A *program* gives every thread id a list of events.  Events are the accesses a reentrant API call makes
to memory that can be reached by more than one thread (process-wide cells, members of shared
geometries), lock operations, and `out v` for everything thread-local that ends up in the thread's
observable transcript (return values computed from private data).

Semantics: sequential consistency — one global memory, one event of one thread at a time; `lock`
blocks while the mutex is held.  A *schedule* is the list of thread ids chosen; `exec` runs it and
fails (`none`) when a chosen thread cannot move.  "All interleavings" = all schedules.

`Racy s`: in state `s` two different threads are both about to perform conflicting accesses to the
same non-atomic cell (same cell, at least one a write).  For SC executions this "simultaneously
enabled" formulation is the standard equivalent of "two conflicting accesses not ordered by
happens-before" (Boehm–Adve 2008, sec. 4); `dataRace` = some schedule reaches a racy state.
-/
namespace GeosModel.Conc

abbrev CellId := Nat
abbrev MutexId := Nat
abbrev Tid := Nat
abbrev Val := Int

inductive Event where
  | read (c : CellId)                  -- load; the value read is appended to the thread's transcript
  | write (c : CellId) (v : Val)       -- store
  | rmw (c : CellId) (d : Val)         -- read-modify-write `c += d`, result not observed (e.g. `++_refCount`)
  | lock (m : MutexId)
  | unlock (m : MutexId)
  | out (v : Val)                      -- thread-local computation contributing `v` to the transcript
deriving DecidableEq, Repr

/-- how a cell is *meant* to be used; `atomic` is a property of the cell's type, the others are usage claims
    that `Disciplined` checks against the program -/
inductive Tag where
  | immutableAfterInit
  | atomic
  | guardedBy (m : MutexId)
  | threadPrivate (t : Tid)
  | plain
deriving DecidableEq, Repr

abbrev Prog := Tid → List Event

def upd {α : Type} (f : Nat → α) (a : Nat) (b : α) : Nat → α := fun x => if x = a then b else f x

structure St where
  mem : CellId → Val
  owner : MutexId → Option Tid
  rest : Tid → List Event            -- events still to run
  done : Tid → List Event            -- events already run (in order) — ghost, used to state theorems
  held : Tid → List MutexId          -- mutexes the thread holds — ghost (mirrors `owner`)
  out : Tid → List Val               -- observable transcript so far

def St.init (mem0 : CellId → Val) (p : Prog) : St :=
  { mem := mem0, owner := fun _ => none, rest := p, done := fun _ => [], held := fun _ => [], out := fun _ => [] }

/-- one event of thread `t`; `none` when `t` has finished or is blocked (or unlocks what it does not hold) -/
def step (s : St) (t : Tid) : Option St :=
  match s.rest t with
  | [] => none
  | e :: es =>
    let s' : St := { s with rest := upd s.rest t es, done := upd s.done t (s.done t ++ [e]) }
    match e with
    | .read c => some { s' with out := upd s.out t (s.out t ++ [s.mem c]) }
    | .write c v => some { s' with mem := upd s.mem c v }
    | .rmw c d => some { s' with mem := upd s.mem c (s.mem c + d) }
    | .out v => some { s' with out := upd s.out t (s.out t ++ [v]) }
    | .lock m =>
      match s.owner m with
      | none => some { s' with owner := upd s.owner m (some t), held := upd s.held t (m :: s.held t) }
      | some _ => none
    | .unlock m =>
      if s.owner m = some t then some { s' with owner := upd s.owner m none, held := upd s.held t ((s.held t).erase m) }
      else none

/-- run a schedule -/
def exec (s : St) : List Tid → Option St
  | [] => some s
  | t :: ts => match step s t with
    | some s' => exec s' ts
    | none => none

/-- the cell an event accesses and whether it modifies it -/
def Event.access : Event → Option (CellId × Bool)
  | .read c => some (c, false)
  | .write c _ => some (c, true)
  | .rmw c _ => some (c, true)
  | _ => none

def conflict (isAtomic : CellId → Bool) (e1 e2 : Event) : Prop :=
  ∃ c w1 w2, e1.access = some (c, w1) ∧ e2.access = some (c, w2) ∧ (w1 = true ∨ w2 = true) ∧ isAtomic c = false

/-- two different threads are about to perform conflicting non-atomic accesses -/
def Racy (isAtomic : CellId → Bool) (s : St) : Prop :=
  ∃ t1 t2 e1 e2 r1 r2, t1 ≠ t2 ∧ s.rest t1 = e1 :: r1 ∧ s.rest t2 = e2 :: r2 ∧ conflict isAtomic e1 e2

def dataRace (isAtomic : CellId → Bool) (mem0 : CellId → Val) (p : Prog) : Prop :=
  ∃ sched s, exec (St.init mem0 p) sched = some s ∧ Racy isAtomic s

/-! ### the locking discipline (a static check of each thread's event list) -/

def tagAtomic (tag : CellId → Tag) (c : CellId) : Bool :=
  match tag c with
  | .atomic => true
  | _ => false

/-- may thread `t`, holding `h`, perform this access to a cell tagged `tg`? -/
def accessOK (tg : Tag) (t : Tid) (h : List MutexId) (isWrite : Bool) : Bool :=
  match tg with
  | .immutableAfterInit => !isWrite
  | .atomic => true
  | .guardedBy m => h.contains m
  | .threadPrivate o => o == t
  | .plain => false

/-- thread `t`'s remaining events respect the discipline when it currently holds `h` -/
def okFrom (tag : CellId → Tag) (t : Tid) : List MutexId → List Event → Bool
  | _, [] => true
  | h, .lock m :: es => !h.contains m && okFrom tag t (m :: h) es
  | h, .unlock m :: es => h.contains m && okFrom tag t (h.erase m) es
  | h, .read c :: es => accessOK (tag c) t h false && okFrom tag t h es
  | h, .write c _ :: es => accessOK (tag c) t h true && okFrom tag t h es
  | h, .rmw c _ :: es => accessOK (tag c) t h true && okFrom tag t h es
  | h, .out _ :: es => okFrom tag t h es

/-- every cell a thread touches is immutable-after-init (reads only), atomic, consistently guarded, or private to it -/
def Disciplined (tag : CellId → Tag) (p : Prog) : Prop := ∀ t, okFrom tag t [] (p t) = true

/-! ### sequential reference run of one thread (locks ignored: alone, a well-bracketed thread never blocks) -/

def seqStep (m : CellId → Val) (tr : List Val) : Event → (CellId → Val) × List Val
  | .read c => (m, tr ++ [m c])
  | .write c v => (upd m c v, tr)
  | .rmw c d => (upd m c (m c + d), tr)
  | .out v => (m, tr ++ [v])
  | _ => (m, tr)

def seqRun (m : CellId → Val) (tr : List Val) : List Event → (CellId → Val) × List Val
  | [] => (m, tr)
  | e :: es => let (m', tr') := seqStep m tr e; seqRun m' tr' es

/-- the transcript of thread events `es` run alone from memory `m0` -/
def seqTranscript (m0 : CellId → Val) (es : List Event) : List Val := (seqRun m0 [] es).2

def readsCell (es : List Event) (c : CellId) : Prop := Event.read c ∈ es
def writesCell (es : List Event) (c : CellId) : Prop := ∃ e ∈ es, e.access = some (c, true)

/-- no thread's observations depend on a cell another thread modifies -/
def Independent (p : Prog) : Prop := ∀ t t' c, t ≠ t' → readsCell (p t) c → ¬ writesCell (p t') c

end GeosModel.Conc
