/-!
# Inventory cells (shape of `Generated/Globals.lean`, written by translate/globals_inventory.py)

A *cell* is a piece of memory that more than one thread can reach although every thread uses its own
context handle and its own objects: a writable symbol of the shared libraries, or a `mutable` data
member of a class whose objects may be shared read-only.  `ty` is the class of its **declared type**
as read from the source; it is the only thing the safety argument may use.
-/
namespace GeosModel.Conc

inductive CellKind where
  | global            -- namespace-scope variable or static data member
  | functionStatic    -- function-local `static`
  | guard             -- ABI guard variable of a function-local static (is itself the synchronisation)
  | mutableMember     -- `mutable` data member (written by const methods)
deriving DecidableEq, Repr

inductive TyClass where
  | atomic            -- std::atomic<…>
  | mutex             -- std::mutex / once_flag
  | threadLocal       -- thread_local storage
  | constAfterInit    -- top-level const / constexpr object: written only by its (guarded or load-time) initialisation
  | guard             -- __cxa_guard_* protocol
  | plain             -- anything else: ordinary non-atomic, non-const memory
deriving DecidableEq, Repr

structure Cell where
  name : String
  lib : String
  kind : CellKind
  ty : TyClass
  decl : String
  loc : String
  size : Nat
deriving Repr

/-- safe for unsynchronised use from several threads *by its type alone* -/
def TyClass.safe : TyClass → Bool
  | .plain => false
  | _ => true

end GeosModel.Conc
