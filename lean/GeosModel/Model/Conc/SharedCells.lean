import GeosModel.Model.Conc.Cells
/-!
# Members of objects shared after being built (shape of `Generated/SharedObjects.lean`, written by
translate/shared_objects_inventory.py)

A prepared geometry answers its `const` predicates through `mutable std::unique_ptr<…>` members; the pointees
(point locators, segment-intersection finder, facet-distance index, the templated STR-tree inside them) have ordinary
data members and non-const query methods.  "Built before sharing" is sound only when the functions that run *after*
the build do not write those members.  A `Member` records the declared type class of one non-static data member and
the member functions (constructors and destructors excluded) whose body textually assigns or modifies it.
-/
namespace GeosModel.Conc

structure Member where
  name : String
  ty : TyClass
  decl : String
  loc : String
  writers : List String
deriving Repr

end GeosModel.Conc
