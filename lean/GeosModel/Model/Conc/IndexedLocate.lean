import GeosModel.Model.Kernel.RayCount
import GeosModel.Model.Conc.Interleave
/-!
# C13 — `IndexedPointInAreaLocator::locate` on a locator built before sharing (core Lean only)

The point predicates of a prepared polygon (`GEOSPreparedContains_r`, `…Intersects…`, `…Covers…`, the `XY` variants)
answer from `IndexedPointInAreaLocator::locate(p)`:

```
algorithm::RayCrossingCounter rcc(*p);
index->query(p->y, p->y, [&rcc](const SegmentView& ls) { rcc.countSegment(ls.p0(), ls.p1()); });
return rcc.getLocation();
```

`index` (built once, by `buildIndex` → `IntervalIndexedGeometry::init/addLine`) holds one entry per consecutive
vertex pair of every ring, keyed by the segment's y-interval.  The counter is a local of the call.  The model:
the visited segments are fed to the port of `RayCrossingCounter::countSegment` (`Model/Kernel/RayCount.lean`, the
C07 model that is tied to the source by the translator) — *without* the early exit of `locatePointInRing`, which
`locate` does not have.  The order in which the interval tree reports the stabbed segments, and whether it reports
additional segments whose interval does not contain `p.y`, is left open: `Proofs/Conc/IndexedLocate.lean` shows the
answer does not depend on either, so that `locate` is a function of (rings, p) alone — which is what makes a built
locator shareable between threads (`Props/C13.lean`, `shared_built_locator_schedule_independent`).
-/
namespace GeosModel.Conc.Locate
open GeosModel.Kernel GeosModel.RayCount

abbrev Seg := Pt × Pt

/-- `IntervalIndexedGeometry::init` / `addLine`: the consecutive vertex pairs of every ring -/
def segsOf (rings : List (List Pt)) : List Seg := rings.flatMap Kernel.edges

/-- `Interval(min y, max y).intersects([p.y, p.y])`: the segment's y-interval is stabbed by the query -/
def stabs (p : Pt) (s : Seg) : Bool := decide (min s.1.y s.2.y ≤ p.y) && decide (p.y ≤ max s.1.y s.2.y)

/-- the visitor: `rcc.countSegment(seg.p0, seg.p1)` for every visited segment, no early exit -/
def visit (p : Pt) (st : RCC) (segs : List Seg) : RCC := segs.foldl (fun st s => countSegment p st s.1 s.2) st

/-- `locate(p)` when the index query visits `visited` (in that order) -/
def locateVisited (p : Pt) (visited : List Seg) : Loc := getLocation (visit p RCC.init visited)

/-- `locate(p)` with the exact query result in insertion order -/
def locate (rings : List (List Pt)) (p : Pt) : Loc := locateVisited p ((segsOf rings).filter (stabs p))

/-- the even–odd specification over all rings: boundary if on some segment, else the parity of the crossings -/
def evenOdd (rings : List (List Pt)) (p : Pt) : Loc :=
  if (segsOf rings).any (fun e => onSegment e.1 e.2 p) then .boundary
  else if ((segsOf rings).filter (fun e => crosses p e.1 e.2)).length % 2 == 1 then .interior else .exterior

def locCode : Loc → Val
  | .interior => 0
  | .boundary => 1
  | .exterior => 2

/-- the shared-memory footprint of one `locate(q)` call on a built locator: it reads the index (cell `idx`, written
only while the locator is built) and returns the pure answer; everything else is local to the call -/
def locateCall (idx : CellId) (rings : List (List Pt)) (q : Pt) : List Event :=
  [.read idx, .out (locCode (locate rings q))]

/-- a thread asking a list of points of the shared locator -/
def locateThread (idx : CellId) (rings : List (List Pt)) (qs : List Pt) : List Event :=
  qs.flatMap (locateCall idx rings)

end GeosModel.Conc.Locate
