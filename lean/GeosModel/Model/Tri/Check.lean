import GeosModel.Base.Kernel
/-!
# C16 — exact certificate checkers for triangulations (core Lean only)

Everything runs over `Kernel.Pt` (integer points: grid inputs, or doubles brought to one common power
of two by `F64.scaleAll`).  The checkers are the *specification made executable*: every clause is a
`List.all` / structural recursion over the whole list, so "the loops cover everything" is a theorem
(`Props/C16.lean`, `checker_sound`).

* `isTriangulationOf sites tris`  — non-degenerate triangles, corners are sites, every site is a corner,
  the boundary 1-chain of the (positively oriented) triangles equals the boundary of the convex hull
  (edge pairing on *elementary* edges: edges are first split at every vertex lying in their interior, so
  collinear hull points and T-junctions on straight boundaries are handled), no directed elementary edge
  is used twice, doubled areas add up to the doubled hull area, and the triangles are pairwise
  interior-disjoint (exact separating-edge test, all pairs).  The hull is computed by an independent
  monotone chain and is *self-certified* by the checker (`hullOK`: strictly convex, counter-clockwise,
  vertices are sites, every site on or to the left of every hull edge).
* `isDelaunay sites tris` — no site strictly inside a circumcircle (`Kernel.inCircleDet`, strict test, so
  every triangulation of cocircular sites is accepted).
* `isCDTOf rings tris` — same tiling certificate against the polygon's boundary (shell + holes, holes may
  touch the shell), centroid test, corners are polygon vertices, constrained (= local) Delaunay condition
  on every edge shared by two triangles.
* `voronoiOK` — cells convex, one site each, nearest-site condition at every cell vertex and total area,
  with the relative slack the computed (double) cell vertices force.
-/
namespace GeosModel.Tri
open GeosModel.Kernel

abbrev Edge := Pt × Pt

structure Tri where
  a : Pt
  b : Pt
  c : Pt
deriving DecidableEq, Repr, Inhabited

/-! ### small list helpers (own definitions: structural recursion, `DecidableEq` only) -/

def memB (p : Pt) (l : List Pt) : Bool := l.any (fun q => decide (q = p))

def dedup : List Pt → List Pt
  | [] => []
  | p :: r => if memB p r then dedup r else p :: dedup r

def insertBy (le : Pt → Pt → Bool) (p : Pt) : List Pt → List Pt
  | [] => [p]
  | q :: r => if le p q then p :: q :: r else q :: insertBy le p r

def isortBy (le : Pt → Pt → Bool) : List Pt → List Pt
  | [] => []
  | p :: r => insertBy le p (isortBy le r)

def lexLe (a b : Pt) : Bool := decide (a.x < b.x) || (decide (a.x = b.x) && decide (a.y ≤ b.y))

def swap (e : Edge) : Edge := (e.2, e.1)

def memE (e : Edge) (l : List Edge) : Bool := l.any (fun f => decide (f = e))

def eraseE (e : Edge) : List Edge → List Edge
  | [] => []
  | f :: r => if f = e then r else f :: eraseE e r

def cntE (e : Edge) (l : List Edge) : Nat := (l.filter (fun f => decide (f = e))).length

/-- closed-loop consecutive pairs of an open vertex list -/
def loopEdges (l : List Pt) : List Edge :=
  match l with
  | [] => []
  | [_] => []
  | h :: _ => Kernel.edges (l ++ [h])

def sumInt (l : List Int) : Int := l.foldr (· + ·) 0

/-! ### triangles -/

def Tri.det (t : Tri) : Int := Kernel.det t.a t.b t.c
/-- counter-clockwise representative -/
def Tri.ccw (t : Tri) : Tri := if t.det < 0 then ⟨t.a, t.c, t.b⟩ else t
def Tri.corners (t : Tri) : List Pt := [t.a, t.b, t.c]
def Tri.edges (t : Tri) : List Edge := [(t.a, t.b), (t.b, t.c), (t.c, t.a)]

def allCorners (ts : List Tri) : List Pt := ts.flatMap Tri.corners
def triEdges (ts : List Tri) : List Edge := ts.flatMap Tri.edges

/-- shoelace term of a directed edge; `det a b c = cross (a,b) + cross (b,c) + cross (c,a)` -/
def cross (e : Edge) : Int := e.1.x * e.2.y - e.2.x * e.1.y

/-! ### convex hull (monotone chain; strict vertices only, counter-clockwise, open list) -/

def popWhile (p : Pt) : List Pt → List Pt
  | [] => []
  | b :: rest =>
    match rest with
    | [] => [b]
    | a :: _ => if Kernel.det a b p ≤ 0 then popWhile p rest else b :: rest

def chain (pts : List Pt) : List Pt := pts.foldl (fun st p => p :: popWhile p st) []

def hull (sites : List Pt) : List Pt :=
  let s := isortBy lexLe (dedup sites)
  match s with
  | [] => []
  | [a] => [a]
  | _ =>
    let lower := (chain s).reverse
    let upper := (chain s.reverse).reverse
    lower.dropLast ++ upper.dropLast

/-! ### elementary edges and chain cancellation -/

def strictlyInside (a b p : Pt) : Bool := onSegment a b p && decide (p ≠ a) && decide (p ≠ b)

/-- split the directed edge at every vertex of `V` (no repetitions) lying strictly inside it (ordered along the edge) -/
def splitEdge (V : List Pt) (e : Edge) : List Edge :=
  if e.1 = e.2 then [e] else
  let mids := isortBy (fun p q => decide (dot e.1 e.2 p ≤ dot e.1 e.2 q)) (V.filter (strictlyInside e.1 e.2))
  Kernel.edges (e.1 :: (mids ++ [e.2]))

def elemEdges (V : List Pt) (es : List Edge) : List Edge :=
  let V' := dedup V
  es.flatMap (splitEdge V')

/-- greedy cancellation of opposite directed edges; the residue is what does not cancel -/
def cancel : Nat → List Edge → List Edge
  | 0, l => l
  | _ + 1, [] => []
  | fuel + 1, e :: r =>
    if memE (swap e) r then cancel fuel (eraseE (swap e) r) else e :: cancel fuel r

/-- the 1-chains `T` and `B` are equal: `T` together with the reversed `B` cancels completely -/
def chainEq (T B : List Edge) : Bool :=
  let L := T ++ B.map swap
  (cancel L.length L).isEmpty

def noDupE : List Edge → Bool
  | [] => true
  | e :: r => !memE e r && noDupE r

/-! ### pairwise interior-disjointness (separating edge; triangles counter-clockwise) -/

def sepBy (t u : Tri) : Bool :=
  t.edges.any (fun e => u.corners.all (fun p => decide (Kernel.det e.1 e.2 p ≤ 0)))

def interiorDisjoint (t u : Tri) : Bool := sepBy t u || sepBy u t

def pairwiseDisjoint : List Tri → Bool
  | [] => true
  | t :: r => r.all (interiorDisjoint t) && pairwiseDisjoint r

/-! ### hull certificate -/

/-- fan triangulation of an open vertex list from its first vertex -/
def fanFrom (h0 : Pt) : List Pt → List Tri
  | [] => []
  | a :: rest =>
    match rest with
    | [] => []
    | b :: _ => ⟨h0, a, b⟩ :: fanFrom h0 rest

def fan : List Pt → List Tri
  | [] => []
  | h0 :: rest => fanFrom h0 rest

/-- self-certificate of a hull `h` for `sites`: with ≥ 3 vertices it is strictly convex and
counter-clockwise, its vertices are sites, every site is on or to the left of every edge, and its fan
triangulation from the first vertex consists of positively oriented, pairwise separated triangles;
with < 3 vertices (degenerate) all sites lie on the closed segment spanned by it -/
def hullOK (sites h : List Pt) : Bool :=
  h.all (fun v => memB v sites) &&
  (match h with
   | [] => sites.isEmpty
   | [a] => sites.all (fun s => decide (s = a))
   | [a, b] => decide (a ≠ b) && sites.all (fun s => onSegment a b s)
   | _ =>
     (loopEdges h).all (fun e => sites.all (fun s => decide (0 ≤ Kernel.det e.1 e.2 s))) &&
     (loopEdges h).all (fun e => h.all (fun v => decide (v = e.1) || decide (v = e.2) || decide (0 < Kernel.det e.1 e.2 v))) &&
     -- the fan from the first vertex is positively oriented and pairwise separated (used by the covering theorem)
     (fan h).all (fun t => decide (0 < t.det)) && pairwiseDisjoint (fan h))

/-! ### the Delaunay triangulation certificate -/

/-- tiling certificate of positively oriented triangles `ts` against a boundary chain `B` with
vertex set `V` and doubled area `A2` -/
def tiles (V : List Pt) (ts : List Tri) (B : List Edge) (A2 : Int) : Bool :=
  let T := elemEdges V (triEdges ts)
  noDupE T && chainEq T (elemEdges V B) && decide (sumInt (ts.map Tri.det) = A2) && pairwiseDisjoint ts

def isTriangulationOf (sites : List Pt) (tris : List Tri) : Bool :=
  let ts := tris.map Tri.ccw
  let h := hull sites
  tris.all (fun t => decide (t.det ≠ 0)) &&
  (allCorners tris).all (fun p => memB p sites) &&
  (tris.isEmpty || sites.all (fun s => memB s (allCorners tris))) &&
  hullOK sites h &&
  tiles sites ts (loopEdges h) (sumInt ((loopEdges h).map cross))

/-- no site strictly inside the circumcircle of any triangle (strict, so cocircular ties are free) -/
def isDelaunay (sites : List Pt) (tris : List Tri) : Bool :=
  (tris.map Tri.ccw).all (fun t => sites.all (fun s => decide (inCircleDet t.a t.b t.c s ≤ 0)))

/-- undirected normal form of an edge -/
def normE (e : Edge) : Edge := if lexLe e.1 e.2 then e else swap e

/-- the undirected edge set of a list of triangles (each once) -/
def dedupE : List Edge → List Edge
  | [] => []
  | e :: r => if memE e r then dedupE r else e :: dedupE r

def edgesOf (tris : List Tri) : List Edge := dedupE ((triEdges tris).map normE)

/-- the edge output `es` is exactly `expected` as a set of undirected edges, without repetition -/
def sameEdgeSet (es expected : List Edge) : Bool :=
  let n := es.map normE
  noDupE n && n.all (fun e => memE e expected) && expected.all (fun e => memE e n)

/-- edges expected for a degenerate (all collinear) site set: consecutive sites along the line -/
def pathEdges (sites : List Pt) : List Edge := (Kernel.edges (isortBy lexLe (dedup sites))).map normE

/-! ### constrained Delaunay triangulation of a polygon (rings closed: first = last) -/

def ringCCW (r : List Pt) : List Pt := if area2 r < 0 then r.reverse else r
def ringCW (r : List Pt) : List Pt := if area2 r > 0 then r.reverse else r

/-- boundary chain with the polygon interior on the left: shell counter-clockwise, holes clockwise -/
def polyBoundary : List (List Pt) → List Edge
  | [] => []
  | shell :: holes => Kernel.edges (ringCCW shell) ++ holes.flatMap (fun h => Kernel.edges (ringCW h))

def polyArea2 : List (List Pt) → Int
  | [] => 0
  | shell :: holes => (area2 shell).natAbs - sumInt (holes.map (fun h => ((area2 h).natAbs : Int)))

def scale3 (p : Pt) : Pt := ⟨3 * p.x, 3 * p.y⟩
def centroid3 (t : Tri) : Pt := ⟨t.a.x + t.b.x + t.c.x, t.a.y + t.b.y + t.c.y⟩

/-- every edge shared by two triangles is locally Delaunay (the other triangle's corners are not
strictly inside this triangle's circumcircle) — equivalent to the constrained Delaunay property -/
def locallyDelaunay (ts : List Tri) : Bool :=
  ts.all (fun t => ts.all (fun u =>
    !(t.edges.any (fun e => memE (swap e) u.edges)) ||
    u.corners.all (fun p => decide (inCircleDet t.a t.b t.c p ≤ 0))))

def isCDTOf (rings : List (List Pt)) (tris : List Tri) : Bool :=
  let ts := tris.map Tri.ccw
  let V := rings.flatMap id
  tris.all (fun t => decide (t.det ≠ 0)) &&
  (allCorners tris).all (fun p => memB p V) &&
  tiles V ts (polyBoundary rings) (polyArea2 rings) &&
  tris.all (fun t => decide (locateInPolygon (centroid3 t) (rings.map (fun r => r.map scale3)) = Loc.interior))

def isConstrainedDelaunay (tris : List Tri) : Bool := locallyDelaunay (tris.map Tri.ccw)

/-! ### constrained Delaunay triangulation of a COLLECTION of polygons

`ConstrainedDelaunayTriangulator::compute` triangulates every component polygon of its input on its own and
returns the triangles of all components in one flat collection.  The specification: the output splits into
one group per component, group `i` being a constrained Delaunay triangulation of component `i`.  For
components with pairwise disjoint interiors (they may share boundary edges or vertices — legal in a
GeometryCollection) the group of a triangle is determined by the output itself: the component whose interior
contains the triangle's centroid.  Nothing is assumed about the order of the output. -/

/-- the centroid of `t` lies strictly inside the polygon `rings` (exact: everything scaled by 3) -/
def ownedBy (rings : List (List Pt)) (t : Tri) : Bool :=
  decide (locateInPolygon (centroid3 t) (rings.map (fun r => r.map scale3)) = Loc.interior)

/-- the output triangles that belong to component `rings` -/
def trisIn (rings : List (List Pt)) (tris : List Tri) : List Tri := tris.filter (ownedBy rings)

/-- every output triangle belongs to exactly one component, and every component is tiled — exactly, with the
constrained Delaunay condition on the edges shared *inside the group* — by the triangles that belong to it.
(A pair of triangles of two different components that share a boundary edge of both is NOT subject to the
Delaunay condition: that edge is a constraint of both polygons.) -/
def isCDTOfCollection (polys : List (List (List Pt))) (tris : List Tri) : Bool :=
  tris.all (fun t => decide ((polys.filter (fun rings => ownedBy rings t)).length = 1)) &&
  polys.all (fun rings => isCDTOf rings (trisIn rings tris) && isConstrainedDelaunay (trisIn rings tris))

/-! ### Voronoi cells (cell vertices are computed doubles, brought to the common integer scale) -/

/-- `a ≤ b` up to the relative slack 1e-9 (`a`, `b` ≥ 0) -/
def leSlack (a b : Int) : Bool := decide (a * 1000000000 ≤ b * 1000000001)

structure Box where
  minx : Int
  maxx : Int
  miny : Int
  maxy : Int
deriving Repr, DecidableEq

def Box.area2 (b : Box) : Int := 2 * (b.maxx - b.minx) * (b.maxy - b.miny)

/-- diagram envelope of `VoronoiDiagramBuilder::create`: site envelope expanded by max(width,height), then
expanded to include the clip envelope -/
def diagramEnv (sites : List Pt) (clip : Option Box) : Option Box :=
  match sites with
  | [] => none
  | p :: r =>
    let b : Box := r.foldl (fun b q => ⟨min b.minx q.x, max b.maxx q.x, min b.miny q.y, max b.maxy q.y⟩) ⟨p.x, p.x, p.y, p.y⟩
    let d := max (b.maxx - b.minx) (b.maxy - b.miny)
    let e : Box := ⟨b.minx - d, b.maxx + d, b.miny - d, b.maxy + d⟩
    match clip with
    | none => some e
    | some c => some ⟨min e.minx c.minx, max e.maxx c.maxx, min e.miny c.miny, max e.maxy c.maxy⟩

/-- a closed ring is a valid convex polygon (counter-clockwise after normalisation): ≥ 3 distinct vertices,
no vertex repeated, non-zero area, every vertex on or to the left of every edge -/
def convexRing (ring : List Pt) : Bool :=
  let r := ringCCW ring
  let vs := r.dropLast
  decide (3 ≤ vs.length) && decide (r.head? = r.getLast?) && decide (dedup vs = vs) && decide (area2 r ≠ 0) &&
  (Kernel.edges r).all (fun e => vs.all (fun v => decide (0 ≤ Kernel.det e.1 e.2 v)))

/-- strictly inside a convex counter-clockwise closed ring -/
def strictlyInConvex (ring : List Pt) (p : Pt) : Bool :=
  (Kernel.edges (ringCCW ring)).all (fun e => decide (0 < Kernel.det e.1 e.2 p))
/-- in the closed convex ring -/
def inClosedConvex (ring : List Pt) (p : Pt) : Bool :=
  (Kernel.edges (ringCCW ring)).all (fun e => decide (0 ≤ Kernel.det e.1 e.2 p))

/-- magnitude the slack is relative to: the largest absolute ordinate of a site or of the envelope, and
the envelope's extent.  Cell vertices are doubles near that magnitude, so their position is only meaningful
up to a small multiple of `ulp(M)`; every approximate comparison below allows a displacement of `1e-9 * M`. -/
def slackScale (sites : List Pt) (env : Box) : Int :=
  let m := sites.foldl (fun m p => max m (max (p.x.natAbs : Int) (p.y.natAbs : Int))) 0
  max (max m (max (env.maxx - env.minx) (env.maxy - env.miny)))
    (max (max (env.minx.natAbs : Int) (env.maxx.natAbs : Int)) (max (env.miny.natAbs : Int) (env.maxy.natAbs : Int)))

/-- `v` is at least as close to `s` as to `t`, up to slack: exactly, or within 1e-9 relative on the squared
distances, or `v` is within `1e-9 * M` of the closed half-plane of `s` bounded by the bisector of `s`,`t`
(signed distance to the bisector = (|vs|² − |vt|²) / (2 |st|), compared squared) -/
def nearOK (M : Int) (v s t : Pt) : Bool :=
  let d := sqDist v s - sqDist v t
  decide (d ≤ 0) || leSlack (sqDist v s) (sqDist v t) ||
  decide (d * d * 1000000000000000000 ≤ 4 * sqDist s t * M * M)

/-- cell `ring` belongs to `site`: valid convex, the site strictly inside, no other site in the closed cell,
every cell vertex at least as close to `site` as to any other site (`nearOK`), and every cell vertex inside
the diagram envelope up to `1e-9 * M` -/
def cellOK (sites : List Pt) (env : Box) (M : Int) (site : Pt) (ring : List Pt) : Bool :=
  convexRing ring &&
  strictlyInConvex ring site &&
  sites.all (fun t => decide (t = site) || !inClosedConvex ring t) &&
  ring.all (fun v => sites.all (fun t => nearOK M v site t)) &&
  ring.all (fun v =>
    decide ((env.minx - v.x) * 1000000000 ≤ M) && decide ((v.x - env.maxx) * 1000000000 ≤ M) &&
    decide ((env.miny - v.y) * 1000000000 ≤ M) && decide ((v.y - env.maxy) * 1000000000 ≤ M))

/-- cells paired with their sites cover the envelope: every (distinct) site has exactly one cell and the
doubled areas add up to the doubled envelope area, up to a displacement `1e-9 * M` of every cell vertex
(each cell's perimeter is at most the envelope's) -/
def voronoiOK (sites : List Pt) (env : Box) (cells : List (Pt × List Pt)) : Bool :=
  let us := dedup sites
  let M := slackScale us env
  cells.all (fun c => memB c.1 us && cellOK us env M c.1 c.2) &&
  decide (dedup (cells.map (·.1)) = cells.map (·.1)) &&
  us.all (fun s => memB s (cells.map (·.1))) &&
  (let A := sumInt (cells.map (fun c => (area2 c.2).natAbs))
   decide (((A - env.area2).natAbs : Int) * 1000000000 ≤
     4 * (cells.length : Int) * ((env.maxx - env.minx) + (env.maxy - env.miny)) * M))

/-- the site a cell belongs to: the unique site strictly inside it -/
def cellSite (sites : List Pt) (ring : List Pt) : Option Pt :=
  match (dedup sites).filter (strictlyInConvex ring) with
  | [s] => some s
  | _ => none

end GeosModel.Tri
