import GeosModel.Base.Kernel
import GeosModel.Base.IM
/-!
# C16 — the geometric decisions of the triangulators, as functions of the exact determinants

Hand-written models of what `TrianglePredicate`, the orientation helpers of `quadedge::Vertex` and the flip test of
`TriDelaunayImprover` decide, expressed through `Kernel.det` and `Kernel.inCircleDet` (the determinants the certificate
checkers of `Model/Tri/Check.lean` evaluate).  `Props/C16Gen.lean` proves the definitions regenerated from the C++
equal to these for all arguments; `Props/C16.lean` relates them to the circumcircle (`inCircle_sign`).
Core Lean only.
-/
namespace GeosModel.Tri
open GeosModel.Kernel

/-- where `d` lies relative to the circle through `a`, `b`, `c` (counter-clockwise): `I` strictly inside, `B` on it,
`E` strictly outside — the sign of the exact in-circle determinant -/
def inCircleLoc (a b c d : Pt) : Loc3 :=
  if 0 < inCircleDet a b c d then .I else if inCircleDet a b c d = 0 then .B else .E

/-- a sign test with an error bound: decided (`I` for positive, `E` for negative) only when the value exceeds the bound in
magnitude, `B` ("on the circle / undecided") otherwise -/
def filteredLoc (v err : Rat) : Loc3 :=
  if err < v then .I else if v < -err then .E else .B

def absR (x : Rat) : Rat := if x < 0 then -x else x

/-- the relative error factor of `TrianglePredicate::isInCircleRobust` (`9.99200719823023e-16`) -/
def inCircleEps : Rat := (999200719823023 : Rat) * (1 / (10 : Rat) ^ 30)

/-- the error bound `TrianglePredicate::isInCircleRobust(a, b, c, d)` attaches to its determinant: the products the
determinant is built from, with every term replaced by its absolute value, times `inCircleEps` -/
def robustErr (a b c d : Pt) : Rat :=
  let apx : Rat := (a.x - b.x : Int); let apy : Rat := (a.y - b.y : Int)     -- q − p   (q = a, p = b)
  let rpx : Rat := (c.x - b.x : Int); let rpy : Rat := (c.y - b.y : Int)     -- r − p
  let tpx : Rat := (d.x - b.x : Int); let tpy : Rat := (d.y - b.y : Int)     -- t − p
  let tqx : Rat := (d.x - a.x : Int); let tqy : Rat := (d.y - a.y : Int)     -- t − q
  let rqx : Rat := (c.x - a.x : Int); let rqy : Rat := (c.y - a.y : Int)     -- r − q
  ((absR (apx * tpy) + absR (apy * tpx)) * (absR (rpx * rqx) + absR (rpy * rqy)) +
   (absR (apx * rpy) + absR (apy * rpx)) * (absR (tpx * tqx) + absR (tpy * tqy))) * inCircleEps

/-- `TrianglePredicate::isInCircleRobust(a, b, c, d)` in exact arithmetic: the in-circle determinant filtered by `robustErr` -/
def robustInCircleLoc (a b c d : Pt) : Loc3 := filteredLoc (inCircleDet a b c d : Int) (robustErr a b c d)

/-- `Vertex::isInCircle` / the general flip test of `IncrementalDelaunayTriangulator::insertSite`: `v` is *decidedly*
strictly inside the circle through `a`, `b`, `c` -/
def flipInCircle (a b c v : Pt) : Bool := robustInCircleLoc a b c v == .I

/-- `TriDelaunayImprover::isDelaunay(adj0, adj1, opp0, opp1)`: neither opposite vertex is decidedly inside the circumcircle
of the other triangle (the triangles are `(adj0, opp0, adj1)` and `(adj1, opp1, adj0)`) -/
def improverDelaunay (adj0 adj1 opp0 opp1 : Pt) : Bool :=
  !flipInCircle adj0 opp0 adj1 opp1 && !flipInCircle adj1 opp1 adj0 opp0

end GeosModel.Tri
