/-
`shortest`: the SPECIFICATION of Ryu's `d2d` (src/deps/ryu/d2s.c), computed with exact `Nat` arithmetic.

For a finite non-zero double `x` (bit pattern of |x| = `u`, `1 ≤ u < INF`) the *rounding interval* is the set
of reals that a correctly rounded (round-to-nearest, ties-to-even) conversion maps to `x`:
  `[ (pred x + x)/2 , (x + succ x)/2 ]`, end points included iff the mantissa of `x` is even.
`shortest u = (k, q)` is the decimal `k·10^q` in that interval with the largest `q` (= the fewest digits),
and among those the one closest to `x` (ties → even `k`).  Ryu's table arithmetic is *replaced* by this
definition; the two are compared on every case of the correspondence stream `fmt`.

All doubles are handled as integers: `ival u = |x| · 2^1075`.   Core Lean only.
-/
namespace GeosModel.Num

/-- the positive double with bit pattern `u` (`u < 2^63`), scaled by `2^1075` — an integer.
`ex = 0`: subnormal `fr · 2^-1074`; otherwise `(2^52 + fr) · 2^(ex-1075)`.  The pattern of +∞
(`INF`) evaluates to `2^1024 · 2^1075`, the value IEEE uses as overflow threshold. -/
def ival (u : Nat) : Nat :=
  if u / 2 ^ 52 = 0 then (u % 2 ^ 52) * 2 else (2 ^ 52 + u % 2 ^ 52) * 2 ^ (u / 2 ^ 52)

/-- bit pattern of +∞ -/
def INF : Nat := 0x7ff0000000000000

/-- rounding interval of the double `u` (`1 ≤ u < INF`), all three numbers scaled by `2^1076` -/
structure Ivl where
  lo2 : Nat
  v2 : Nat
  hi2 : Nat
  incl : Bool
deriving Repr, DecidableEq

def ivl (u : Nat) : Ivl :=
  { lo2 := ival (u - 1) + ival u, v2 := 2 * ival u, hi2 := ival u + ival (u + 1), incl := u % 2 == 0 }

/-- numerators are multiplied by `sN q`, the decimal `k·10^q` is `k · sD q` (both in units of `2^-1076`) -/
def sN (q : Int) : Nat := if q < 0 then 10 ^ (-q).toNat else 1
def sD (q : Int) : Nat := if q < 0 then 2 ^ 1076 else 10 ^ q.toNat * 2 ^ 1076

/-- `k·10^q` lies in the rounding interval -/
def inIvl (I : Ivl) (q : Int) (k : Nat) : Bool :=
  if I.incl then decide (I.lo2 * sN q ≤ k * sD q) && decide (k * sD q ≤ I.hi2 * sN q)
  else decide (I.lo2 * sN q < k * sD q) && decide (k * sD q < I.hi2 * sN q)

/-- ⌊x / 10^q⌋ -/
def flo (I : Ivl) (q : Int) : Nat := I.v2 * sN q / sD q

/-- the multiple of `10^q` in the interval closest to the value (ties → even), if there is one.
Only `⌊x/10^q⌋` and `⌊x/10^q⌋+1` can be closest, and if neither is in the (convex) interval no multiple is. -/
def pick (I : Ivl) (q : Int) : Option Nat :=
  let a := flo I q
  let r := I.v2 * sN q % sD q
  if r = 0 then some a
  else
    match inIvl I q a, inIvl I q (a + 1) with
    | true, true => if 2 * r < sD q then some a else if sD q < 2 * r then some (a + 1)
                    else if a % 2 = 0 then some a else some (a + 1)
    | true, false => some a
    | false, true => some (a + 1)
    | false, false => none

/-! ### number of decimal digits -/

def dlenAux : Nat → Nat → Nat
  | 0, _ => 1
  | f + 1, n => if n < 10 then 1 else dlenAux f (n / 10) + 1

/-- number of decimal digits of `n` (1 for 0) -/
def dlen (n : Nat) : Nat := dlenAux (n.log2 + 1) n

/-- same value, computed from the bit length with a check (fast path for 2000-bit numbers) -/
def dlenFast (n : Nat) : Nat :=
  let d := n.log2 * 1233 / 4096 + 1
  if 10 ^ (d - 1) ≤ n ∧ n < 10 ^ d then d
  else if 10 ^ d ≤ n ∧ n < 10 ^ (d + 1) then d + 1
  else dlen n

/-- the decimal exponent at which the value has exactly 17 integer digits:
`10^16 ≤ ⌊x/10^q17⌋ < 10^17`.  (`⌊x·10^360⌋ ≥ 10^36` for every positive double.) -/
def q17 (I : Ivl) : Int := (dlenFast (I.v2 * 10 ^ 360 / 2 ^ 1076) : Int) - 377

/-- climb to the largest exponent that still has a multiple in the interval -/
def climb (I : Ivl) : Nat → Int → Nat → Int × Nat
  | 0, q, k => (q, k)
  | f + 1, q, k =>
    match pick I (q + 1) with
    | some k' => climb I f (q + 1) k'
    | none => (q, k)

/-- more than enough steps: `⌊x/10^(q17+18)⌋ = 0` -/
def climbFuel : Nat := 20

def shortestFrom (I : Ivl) (q0 : Int) : Option Nat → Nat × Int
  | some k => ((climb I climbFuel q0 k).2, (climb I climbFuel q0 k).1)
  | none => (0, 0)

/-- shortest decimal `(digits, exponent)` of the positive finite double with bit pattern `u`.
17 digits always give a candidate (`Proofs/Num`: `pick_big` with `q17_spec`), so the `none` branch is dead. -/
def shortest (u : Nat) : Nat × Int :=
  shortestFrom (ivl u) (q17 (ivl u)) (pick (ivl u) (q17 (ivl u)))

end GeosModel.Num
