import GeosModel.Model.Num.Shortest
/-
Reading a number the way `strtod` does in the "C" locale (src/io/StringTokenizer.cpp hands every
token to `strtod` and calls it a number when the whole token was consumed).

* `parseNum`  : characters → exact value (`±n·10^e`, a decimal is an exact rational `n·10^e`), or nan / inf.
* `roundNE`   : exact value → bit pattern of the nearest double, ties to even = the SPECIFICATION of a
                correctly rounded `strtod` (glibc's is; compared on every case of stream `fmt`).
Grammar: `[ws] [+-] ( digits [. [digits]] | . digits ) [ (e|E) [+-] digits ]`, or `inf`/`infinity`/`nan`
(any case).  Hexadecimal floats and `nan(…)` — which `strtod` also accepts — are not modelled (the writers never emit them).
Core Lean only.
-/
namespace GeosModel.Num

inductive Parsed where
  | nan (neg : Bool)
  | inf (neg : Bool)
  | dec (neg : Bool) (n : Nat) (e : Int)     -- (-1)^neg · n · 10^e
deriving Repr, DecidableEq

/-- `'0' ≤ c ≤ '9'` -/
def isDigit (c : Char) : Bool := 48 ≤ c.toNat && c.toNat ≤ 57
def digitVal (c : Char) : Nat := c.toNat - 48

/-- longest prefix of decimal digits: (value so far, number of digits consumed, rest) -/
def takeDigits : List Char → Nat → Nat → Nat × Nat × List Char
  | c :: cs, acc, cnt => if isDigit c then takeDigits cs (acc * 10 + digitVal c) (cnt + 1) else (acc, cnt, c :: cs)
  | [], acc, cnt => (acc, cnt, [])

def lower (c : Char) : Char := if 'A' ≤ c ∧ c ≤ 'Z' then Char.ofNat (c.toNat + 32) else c

def isWs (c : Char) : Bool := c = ' ' ∨ c = '\t' ∨ c = '\n' ∨ c = '\r' ∨ c = '\x0b' ∨ c = '\x0c'

def dropWs : List Char → List Char
  | c :: cs => if isWs c then dropWs cs else c :: cs
  | [] => []

/-- optional sign -/
def splitSign : List Char → Bool × List Char
  | [] => (false, [])
  | c :: t => if c = '-' then (true, t) else if c = '+' then (false, t) else (false, c :: t)

/-- optional exponent part; an `e` not followed by a valid exponent is *not* consumed by `strtod`, so the token
is then not a number (`none`) -/
def parseExp (rest : List Char) : Option Int :=
  match rest with
  | [] => some 0
  | c :: cs =>
    if c = 'e' ∨ c = 'E' then
      let sg := splitSign cs
      let r := takeDigits sg.2 0 0
      if r.2.1 = 0 ∨ r.2.2 ≠ [] then none else some (if sg.1 then -(r.1 : Int) else (r.1 : Int))
    else none

/-- digits with an optional fraction: (value of all digits, number of fraction digits, number of digits, rest) -/
def parseMantissa (s : List Char) : Nat × Nat × Nat × List Char :=
  let r1 := takeDigits s 0 0
  match r1.2.2 with
  | [] => (r1.1, 0, r1.2.1, [])
  | c :: t =>
    if c = '.' then
      let r2 := takeDigits t r1.1 0
      (r2.1, r2.2.1, r1.2.1 + r2.2.1, r2.2.2)
    else (r1.1, 0, r1.2.1, c :: t)

/-- `strtod` consuming the whole token, exact -/
def parseNum (s : List Char) : Option Parsed :=
  let sg := splitSign (dropWs s)
  let w := sg.2.map lower
  if w = "inf".toList ∨ w = "infinity".toList then some (.inf sg.1)
  else if w = "nan".toList then some (.nan sg.1)
  else
    let m := parseMantissa sg.2
    if m.2.2.1 = 0 then none
    else match parseExp m.2.2.2 with
      | some e => some (.dec sg.1 m.1 (e - m.2.1))
      | none => none

/-! ### round to nearest, ties to even -/

/-- builds the largest `w` (below `acc + 2^bits`) with `p w`, for a downward-closed `p`, bit by bit -/
def bsearch (p : Nat → Bool) : Nat → Nat → Nat
  | 0, acc => acc
  | k + 1, acc => if p (acc + 2 ^ k) then bsearch p k (acc + 2 ^ k) else bsearch p k acc

/-- the non-negative rational `N / D` → bit pattern (`≤ INF`) of the nearest double, ties to even.
`w` = the largest pattern with `value w ≤ N/D`; then compare with the midpoint to `w+1`. -/
def roundPos (N D : Nat) : Nat :=
  let le := fun w => decide (w ≤ INF) && decide (ival w * D ≤ N * 2 ^ 1075)
  let w := bsearch le 63 0
  if w ≥ INF then INF
  else
    let mid2 := ival w + ival (w + 1)          -- 2 · midpoint · 2^1075
    let x2 := 2 * N * 2 ^ 1075                 -- 2 · (N/D) · 2^1075 · D
    if x2 < mid2 * D then w
    else if mid2 * D < x2 then w + 1
    else if w % 2 = 0 then w else w + 1

def nanBitsNat : Nat := 0x7ff8000000000000

/-- bit pattern of the double a correctly rounded `strtod` returns -/
def roundNE : Parsed → Nat
  | .nan neg => nanBitsNat + (if neg then 2 ^ 63 else 0)
  | .inf neg => INF + (if neg then 2 ^ 63 else 0)
  | .dec neg n e =>
    let sg := if neg then 2 ^ 63 else 0
    if n = 0 then sg
    else
      let dn : Int := dlen n
      if e + dn > 400 then INF + sg
      else if e + dn < -400 then sg
      else if e ≥ 0 then roundPos (n * 10 ^ e.toNat) 1 + sg
      else roundPos n (10 ^ (-e).toNat) + sg

/-- `strtod` of a whole token: `none` when the token is not a number -/
def strtod (s : List Char) : Option Nat := (parseNum s).map roundNE

end GeosModel.Num
