import GeosModel.Model.Num.Shortest
/-
Port of the number formatter of the WKT writer:
  src/deps/ryu/d2s.c      decimalLength17, pow_10, to_chars_uint64, to_chars_fixed,
                          geos_d2sfixed_buffered_n, geos_d2sexp_buffered_n   (+ common.h copy_special_str)
  src/io/WKTWriter.cpp    writeTrimmedNumber, writeNumber
`d2d`/`d2d_small_int` (Ryu's digit generation) are replaced by their specification `shortest`.
A double is its 64-bit pattern as a `Nat` (`bits < 2^64`).  Strings are `List Char`.
Places where the C code would read or write out of bounds (a length that does not match the number,
`pow_10` / `DIGIT_TABLE` index out of range) produce the character `#`, which `fmt_alphabet` proves absent.
Core Lean only.
-/
namespace GeosModel.Num

/-- `decimalLength17` (d2s.c): the `if` cascade; 17 for anything ≥ 10^16 (the C `assert(v < 10^17)` is the
precondition discharged by `shortest_lt`) -/
def decimalLength17 (v : Nat) : Nat :=
  if v ≥ 10000000000000000 then 17 else if v ≥ 1000000000000000 then 16
  else if v ≥ 100000000000000 then 15 else if v ≥ 10000000000000 then 14
  else if v ≥ 1000000000000 then 13 else if v ≥ 100000000000 then 12
  else if v ≥ 10000000000 then 11 else if v ≥ 1000000000 then 10
  else if v ≥ 100000000 then 9 else if v ≥ 10000000 then 8
  else if v ≥ 1000000 then 7 else if v ≥ 100000 then 6
  else if v ≥ 10000 then 5 else if v ≥ 1000 then 4
  else if v ≥ 100 then 3 else if v ≥ 10 then 2 else 1

def digitChar (d : Nat) : Char := Char.ofNat (48 + d)

/-- `'0' ≤ c ≤ '9'` -/
def isDigitC (c : Char) : Bool := 48 ≤ c.toNat && c.toNat ≤ 57

/-- decimal digits of `n`, most significant first, at most `fuel` of them -/
def natDigitsF : Nat → Nat → List Char
  | 0, _ => []
  | f + 1, n => if n < 10 then [digitChar n] else natDigitsF f (n / 10) ++ [digitChar (n % 10)]

/-- decimal digits of a 64-bit number -/
def natDigits (n : Nat) : List Char := natDigitsF 20 n

/-- `to_chars_uint64(output, olength, result)`: writes the digits of `output` right-aligned in a field of
`olength` characters and returns the number of digits written.  When `olength` is not the real digit count
(and `output ≥ 10`) the C code writes at wrong offsets — modelled as `#`. -/
def toCharsUint64 (output olength : Nat) : List Char :=
  if output < 10 then [digitChar output]
  else if olength = dlen output ∧ output < 10 ^ 17 then natDigits output
  else ['#']

/-- `pow_10` (table of 18 entries, asserted range) -/
def pow10 (n : Nat) : Nat := 10 ^ n

/-- state of `to_chars_fixed` after the "adapt the decimal digits to the desired precision" block -/
structure Trimmed where
  output : Nat
  olength : Nat
  exp : Int
deriving Repr, DecidableEq

/-- strip trailing decimal zeros: `while (output && output % 10 == 0) { output /= 10; exp++; olength--; }` -/
def stripZeros : Nat → Trimmed → Trimmed
  | 0, t => t
  | f + 1, t => if t.output ≠ 0 ∧ t.output % 10 = 0
      then stripZeros f ⟨t.output / 10, t.olength - 1, t.exp + 1⟩ else t

/-- rounding the last `d` decimal digits away, half-even *on the decimal digits*:
`divisor = pow_10(d); outputDiv = output / divisor; remainder = output - outputDiv * divisor;
 if (remainder > divisor/2 || (remainder == divisor/2 && (outputDiv & 1))) { output = outputDiv + 1; olength = decimalLength17(output); }
 else { output = outputDiv; olength -= d; }   exp += d;` -/
def roundDigits (output olength : Nat) (exp : Int) (d : Nat) : Trimmed :=
  let divisor := pow10 d
  let half := divisor / 2
  let outputDiv := output / divisor
  let remainder := output - outputDiv * divisor
  if remainder > half ∨ (remainder = half ∧ outputDiv % 2 = 1)
  then ⟨outputDiv + 1, decimalLength17 (outputDiv + 1), exp + d⟩
  else ⟨outputDiv, olength - d, exp + d⟩

/-- the block `if (precision < (uint32_t) -exp) { … }` of `to_chars_fixed` (only entered with `exp < 0`) -/
def trimStage (output olength : Nat) (exp : Int) (precision : Nat) : Trimmed :=
  if (precision : Int) < -exp then
    let dtt : Int := -exp - precision
    if dtt > olength then ⟨0, olength, 0⟩
    else stripZeros 20 (roundDigits output olength exp dtt.toNat)
  else ⟨output, olength, exp⟩

/-- the six layout variables of `to_chars_fixed` -/
structure Parts where
  ip : Nat      -- integer_part
  ipl : Nat     -- integer_part_length
  tiz : Nat     -- trailing_integer_zeros
  dp : Nat      -- decimal_part
  dpl : Nat     -- decimal_part_length
  ldz : Nat     -- leading_decimal_zeros
deriving Repr, DecidableEq

def layoutStage (t : Trimmed) : Parts :=
  if t.exp ≥ 0 then ⟨t.output, t.olength, t.exp.toNat, 0, 0, 0⟩
  else
    let nexp := (-t.exp).toNat
    if nexp < t.olength then
      let p := pow10 nexp
      let ip := t.output / p
      let dp := t.output % p
      let ipl := t.olength - nexp
      let dpl := t.olength - ipl
      if dp < pow10 (dpl - 1) then
        let dpl' := decimalLength17 dp
        ⟨ip, ipl, 0, dp, dpl', t.olength - ipl - dpl'⟩
      else ⟨ip, ipl, 0, dp, dpl, 0⟩
    else ⟨0, 0, 0, t.output, t.olength, nexp - t.olength⟩

def renderParts (sign : Bool) (p : Parts) : List Char :=
  (if sign ∧ (p.ip ≠ 0 ∨ p.dp ≠ 0) then ['-'] else []) ++
  toCharsUint64 p.ip p.ipl ++ List.replicate p.tiz '0' ++
  (if p.dp ≠ 0 then '.' :: (List.replicate p.ldz '0' ++ toCharsUint64 p.dp p.dpl) else [])

/-- `to_chars_fixed(v, sign, precision, result)`.  The C function treats `exp >= 0` first (integer part =
the digits, `exp` trailing zeros); `trimStage` is the identity there and `layoutStage` has the same first
branch, so the composition below is the whole function. -/
def toCharsFixed (mantissa : Nat) (exponent : Int) (sign : Bool) (precision : Nat) : List Char :=
  renderParts sign (layoutStage (trimStage mantissa (decimalLength17 mantissa) exponent precision))

/-! ### specification of the rounding (used by the theorems, not by the port) -/

/-- `k·10^q` rounded to `p` decimals, ties to the even last digit — as a decimal `(digits, exponent)` -/
def rheDec (k : Nat) (q : Int) (p : Nat) : Nat × Int :=
  if (p : Int) < -q then
    let d := (-q - p).toNat
    let a := k / 10 ^ d
    let r := k % 10 ^ d
    (if 2 * r > 10 ^ d ∨ (2 * r = 10 ^ d ∧ a % 2 = 1) then a + 1 else a, -(p : Int))
  else (k, q)

/-- two decimals `(digits, exponent)` denote the same number -/
def SameDec (a b : Nat × Int) : Prop :=
  a.1 * 10 ^ (a.2 - b.2).toNat = b.1 * 10 ^ (b.2 - a.2).toNat

/-- `copy_special_str(result, sign, exponent != 0, mantissa != 0)` -/
def specialStr (sign : Bool) (exponentNZ mantissaNZ : Bool) : List Char :=
  if mantissaNZ then "NaN".toList
  else if exponentNZ then (if sign then "-Infinity".toList else "Infinity".toList)
  else "0".toList

/-! ### decoding of the bit pattern -/

def signOf (bits : Nat) : Bool := bits / 2 ^ 63 % 2 = 1
def absBits (bits : Nat) : Nat := bits % 2 ^ 63
def ieeeExponent (bits : Nat) : Nat := bits / 2 ^ 52 % 2 ^ 11
def ieeeMantissa (bits : Nat) : Nat := bits % 2 ^ 52

/-- the early exit of both `geos_d2s*_buffered_n`: exponent all ones, or zero -/
def isSpecial (bits : Nat) : Bool := ieeeExponent bits = 2047 ∨ (ieeeExponent bits = 0 ∧ ieeeMantissa bits = 0)

/-- `geos_d2sfixed_buffered_n(f, precision, result)` -/
def d2sFixed (bits precision : Nat) : List Char :=
  if isSpecial bits then specialStr (signOf bits) (ieeeExponent bits ≠ 0) (ieeeMantissa bits ≠ 0)
  else
    let v := shortest (absBits bits)
    toCharsFixed v.1 v.2 (signOf bits) precision

/-- two characters `DIGIT_TABLE + 2*n` -/
def twoDigits (n : Nat) : List Char :=
  if n < 100 then [digitChar (n / 10), digitChar (n % 10)] else ['#', '#']

/-- the exponent suffix of `geos_d2sexp_buffered_n` -/
def expSuffix (e : Int) : List Char :=
  let a := e.natAbs
  'e' :: (if e < 0 then '-' else '+') ::
    (if a ≥ 100 then twoDigits (a / 10) ++ [digitChar (a % 10)]
     else if a ≥ 10 then twoDigits a
     else [digitChar a])

/-- `geos_d2sexp_buffered_n(f, precision, result)` -/
def d2sExp (bits precision : Nat) : List Char :=
  if isSpecial bits then specialStr (signOf bits) (ieeeExponent bits ≠ 0) (ieeeMantissa bits ≠ 0)
  else
    let v := shortest (absBits bits)
    let olength := decimalLength17 v.1
    let sciExp : Int := v.2 + olength - 1
    toCharsFixed v.1 (1 - (olength : Int)) (signOf bits) precision ++ expSuffix sciExp

/-! ### `WKTWriter::writeTrimmedNumber` -/

/-- bit patterns of the `double` literals in `writeTrimmedNumber` -/
def bits1e17 : Nat := 0x4376345785D8A000     -- 1e+17 (exact)
def bits1em4 : Nat := 0x3F1A36E2EB1C432D     -- 1e-4  (= 1.00000000000000004792e-4)
def bits1 : Nat := 0x3FF0000000000000        -- 1.0

/-- `static_cast<uint32_t>(-floor(log10(da)))` for `1e-4 ≤ da < 1`: exact `⌊log10⌋` by comparing with
`10^-j` (`da ≥ 10^-j ⟺ ival·10^j ≥ 2^1075`).  libm's `log10` is replaced by the exact function; a result that
is off by one for the doubles adjacent to a power of ten does not change the output string (the
correspondence stream `fmt` visits ±8 ulp around each power). -/
def higherPrec (a : Nat) : Nat :=
  if ival a * 10 ≥ 2 ^ 1075 then 1
  else if ival a * 100 ≥ 2 ^ 1075 then 2
  else if ival a * 1000 ≥ 2 ^ 1075 then 3
  else 4

/-- precision actually used on the positional branch -/
def adjPrecision (a precision : Nat) : Nat :=
  if precision < 4 ∧ a < bits1 then max precision (higherPrec a) else precision

/-- which of the three branches `writeTrimmedNumber` takes -/
inductive Notation where | special | sci | fixed
deriving Repr, DecidableEq

def notationOf (bits : Nat) : Notation :=
  let a := absBits bits
  if a ≥ INF ∨ a = 0 then .special
  else if a ≥ bits1e17 ∨ a < bits1em4 then .sci
  else .fixed

/-- `WKTWriter::writeTrimmedNumber(d, precision, buf)` = `GEOS_printDouble` -/
def writeTrimmedNumber (bits precision : Nat) : List Char :=
  match notationOf bits with
  | .special => d2sFixed bits precision
  | .sci => d2sExp bits precision
  | .fixed => d2sFixed bits (adjPrecision (absBits bits) precision)

/-! ### untrimmed: `ss << std::fixed << std::setprecision(p) << d` (glibc `printf("%.*f")`, exact) -/

def padLeft (n : Nat) (l : List Char) : List Char := List.replicate (n - l.length) '0' ++ l

/-- all decimal digits of an arbitrarily large number -/
def bigDigits (n : Nat) : List Char := natDigitsF (n.log2 + 2) n

def writeFixedUntrimmed (bits precision : Nat) : List Char :=
  let a := absBits bits
  let sg : List Char := if signOf bits then ['-'] else []
  if a > INF then sg ++ "nan".toList
  else if a = INF then sg ++ "inf".toList
  else
    -- |x|·10^p = ival a · 10^p / 2^1075, rounded to an integer half-even (the exact binary value decides)
    let num := ival a * 10 ^ precision
    let den := 2 ^ 1075
    let q := num / den
    let r := num % den
    let n := if 2 * r > den ∨ (2 * r = den ∧ q % 2 = 1) then q + 1 else q
    let ds := padLeft (precision + 1) (bigDigits n)
    let ip := ds.take (ds.length - precision)
    let fp := ds.drop (ds.length - precision)
    sg ++ ip ++ (if precision = 0 then [] else '.' :: fp)

/-- `WKTWriter::writeNumber(d, trim, precision)` -/
def writeNumber (bits : Nat) (trim : Bool) (precision : Nat) : List Char :=
  if trim then writeTrimmedNumber bits precision else writeFixedUntrimmed bits precision

end GeosModel.Num
