import GeosModel.Base.GTree
/-
GeoJSON geometry objects (src/io/GeoJSONWriter.cpp, GeoJSONReader.cpp): what `read (write g)` returns.
This is a *specification-level* projection (no JSON text is modelled; numbers are exact for finite doubles
because the JSON library prints shortest round-trip digits and reads with `strtod`) and is tied to GEOS by
the correspondence stream `geojson` only — no theorem is claimed about it.
  * M is never written; Z is written per coordinate when it is not NaN (output dimension 3);
    a re-read sequence has Z iff some coordinate had three numbers;
  * LinearRing is written as LineString;  an empty Point inside a MultiPoint disappears
    (`MultiPoint::getCoordinates` has nothing for it);  curved types are refused by the writer.
Core Lean only.
-/
namespace GeosModel.GeoJSON
open GeosModel

def isNaNBits (b : UInt64) : Bool := (b &&& 0x7fffffffffffffff) > 0x7ff0000000000000

def gjCoord (hasZ : Bool) (c : Coord) : Coord :=
  ⟨c.x, c.y, if hasZ && !isNaNBits c.z then c.z else nanBits, nanBits⟩

def gjSeq (s : CSeq) : CSeq :=
  let pts := s.pts.map (gjCoord s.hasZ)
  ⟨pts.any (fun c => !isNaNBits c.z), false, pts⟩

def gjPoints : List G → List G
  | [] => []
  | .point s :: gs => (if s.pts.isEmpty then [] else [G.point (gjSeq ⟨s.hasZ, s.hasM, s.pts.take 1⟩)]) ++ gjPoints gs
  | _ :: gs => gjPoints gs

mutual
  /-- `none`: the writer refuses (curved geometry) -/
  def roundtrip : G → Option G
    | .point s => some (.point (if s.pts.isEmpty then ⟨false, false, []⟩ else gjSeq s))
    | .lineString s | .linearRing s => some (.lineString (gjSeq s))
    | .polygon sh hs => some (.polygon (gjSeq sh) (hs.map gjSeq))
    | .multiPoint gs => some (.multiPoint (gjPoints gs))
    | .multiLineString gs => (roundtrips gs).map .multiLineString
    | .multiPolygon gs => (roundtrips gs).map .multiPolygon
    | .collection gs => (roundtrips gs).map .collection
    | .circularString _ | .compoundCurve _ | .curvePolygon _ | .multiCurve _ | .multiSurface _ => none
  def roundtrips : List G → Option (List G)
    | [] => some []
    | g :: gs => match roundtrip g, roundtrips gs with
      | some a, some b => some (a :: b)
      | _, _ => none
end

end GeosModel.GeoJSON
