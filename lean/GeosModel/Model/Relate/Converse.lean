import GeosModel.Model.Relate.EnvExit
/-!
The converse of a RelateNG predicate: `coveredBy(A,B)` is `covers(B,A)`, `within(A,B)` is `contains(B,A)`, a pattern is
its transposed pattern, every other named predicate is its own converse.  Asking `k` about (A,B) and `k.converse` about
(B,A) are two evaluation paths of the same question; RelateNG runs them as the same computation with the roles of the
two inputs exchanged — provided the per-predicate requirement flags (`requireCovers`, `requireExteriorCheck`,
`requireInteraction` of RelatePredicate.h), the dimension / envelope initialisation and `isDetermined` / `valueIM` are
mirror images of each other.  Core Lean only.
-/
namespace GeosModel.Relate

/-- a 9-entry pattern, transposed -/
def transposeP : Pat → Pat
  | [a, b, c, d, e, f, g, h, i] => [a, d, g, b, e, h, c, f, i]
  | p => p

def Kind.converse : Kind → Kind
  | .contains => .within
  | .within => .contains
  | .covers => .coveredBy
  | .coveredBy => .covers
  | .pattern p => .pattern (transposeP p)
  | k => k

/-- the envelope facts seen from the other side -/
def EnvFacts.swap (e : EnvFacts) : EnvFacts :=
  { intersects := e.intersects, aCoversB := e.bCoversA, bCoversA := e.aCoversB, equal := e.equal, bothNull := e.bothNull }

/-- an update event seen from the other side -/
def Upd.swap (u : Upd) : Upd := ⟨u.b, u.a, u.d⟩

/-- the state of the converse predicate that mirrors `s` -/
def PState.mirror (s : PState) : PState :=
  { kind := s.kind.converse, dimA := s.dimB, dimB := s.dimA, im := s.im.transpose, value := s.value }

end GeosModel.Relate
