import GeosModel.Base.IM
/-!
The predicate layer of RelateNG (include/geos/operation/relateng/RelatePredicate.h, IMPredicate.cpp,
BasicPredicate.cpp, IMPatternMatcher.cpp, RelateMatrixPredicate.h) as a state machine.

The geometric engine feeds `updateDimension(locA, locB, dim)` events; an `IMPredicate` keeps a partial
matrix whose entries only grow, and freezes its answer (`setValue` is sticky) as soon as
`isDetermined()` holds; `finish()` evaluates `valueIM()` on the final matrix otherwise.
Core Lean only.
-/
namespace GeosModel.Relate

/-- pattern entry codes as in `Dimension`: DONTCARE = −3, True = −2, False = −1, 0, 1, 2 -/
abbrev Pat := List Int

def patOfChars (cs : List Char) : Pat :=
  cs.map fun c => if c == '*' then -3 else if c == 'T' then -2 else if c == 'F' then -1
                  else if c == '0' then 0 else if c == '1' then 1 else if c == '2' then 2 else -3

inductive Kind where
  | intersects | disjoint
  | contains | within | covers | coveredBy | crosses | equalsTopo | overlaps | touches
  | pattern (p : Pat)
  | matrix
deriving DecidableEq, Repr

def Kind.isBasic : Kind → Bool
  | .intersects | .disjoint => true
  | _ => false

/-- `BasicPredicate::isIntersection` -/
def isIntersection (a b : Loc3) : Bool := a != .E && b != .E

def isIntersectsE (m : IM) (a b : Loc3) : Bool := decide (m.get a b ≥ 0)

/-- `IMPredicate::intersectsExteriorOf(isA)` -/
def intersectsExteriorOf (m : IM) (isA : Bool) : Bool :=
  if isA then isIntersectsE m .E .I || isIntersectsE m .E .B
  else isIntersectsE m .I .E || isIntersectsE m .B .E

/-- one entry of a pattern against a matrix value (`IntersectionMatrix::matches(int, char)`) -/
def matchEntry (v p : Int) : Bool :=
  if p == -3 then true
  else if p == -2 then decide (v ≥ 0)
  else v == p

def matchesP (m : IM) (p : Pat) : Bool := p.length == 9 && (List.zipWith matchEntry m.entries p).all id

/-- the loop of `IMPatternMatcher::isDetermined` over the entries in row-major order -/
def patDetermined : List Int → List Int → Bool
  | v :: vs, p :: ps =>
    if p == -3 then patDetermined vs ps
    else if p == -2 then (if v < 0 then false else patDetermined vs ps)
    else if v > p then true
    else patDetermined vs ps
  | _, _ => false

/-- `isDetermined()` of each IM predicate -/
def isDetermined (k : Kind) (dA dB : Int) (m : IM) : Bool :=
  match k with
  | .contains | .covers => intersectsExteriorOf m true
  | .within | .coveredBy => intersectsExteriorOf m false
  | .crosses =>
    if dA == 1 && dB == 1 then decide (m.ii > 0)
    else if dA < dB then isIntersectsE m .I .I && isIntersectsE m .I .E
    else if dA > dB then isIntersectsE m .I .I && isIntersectsE m .E .I
    else false
  | .equalsTopo => isIntersectsE m .I .E || isIntersectsE m .B .E || isIntersectsE m .E .I || isIntersectsE m .E .B
  | .overlaps =>
    ((dA == 2 || dA == 0) && isIntersectsE m .I .I && isIntersectsE m .I .E && isIntersectsE m .E .I) ||
    (dA == 1 && m.ii == 1 && isIntersectsE m .I .E && isIntersectsE m .E .I)
  | .touches => isIntersectsE m .I .I
  | .pattern p => patDetermined m.entries p
  | _ => false

/-- `valueIM()` -/
def valueIM (k : Kind) (dA dB : Int) (m : IM) : Bool :=
  match k with
  | .contains => m.isContains
  | .within => m.isWithin
  | .covers => m.isCovers
  | .coveredBy => m.isCoveredBy
  | .crosses => m.isCrosses dA dB
  | .equalsTopo => m.isEquals dA dB
  | .overlaps => m.isOverlaps dA dB
  | .touches => m.isTouches dA dB
  | .pattern p => matchesP m p
  | _ => false

structure PState where
  kind : Kind
  dimA : Int
  dimB : Int
  im : IM
  value : Option Bool       -- `m_value`: none = UNKNOWN
deriving Repr

/-- `BasicPredicate::setValue` (sticky) -/
def PState.setValue (s : PState) (v : Bool) : PState :=
  match s.value with
  | some _ => s
  | none => { s with value := some v }

def PState.require (s : PState) (c : Bool) : PState := if c then s else s.setValue false

def PState.new (k : Kind) : PState := { kind := k, dimA := -1, dimB := -1, im := IM.allF.set .E .E 2, value := none }

/-- `IMPredicate::isDimsCompatibleWithCovers` -/
def dimsCompatibleWithCovers (d0 d1 : Int) : Bool := (d0 == 0 && d1 == 1) || decide (d0 ≥ d1)

/-- `init(dimA, dimB)` -/
def PState.initDim (s : PState) (dA dB : Int) : PState :=
  let s := { s with dimA := dA, dimB := dB }
  match s.kind with
  | .contains | .covers => s.require (dimsCompatibleWithCovers dA dB)
  | .within | .coveredBy => s.require (dimsCompatibleWithCovers dB dA)
  | .crosses => s.require (!((dA == 0 && dB == 0) || (dA == 2 && dB == 2)))
  | .overlaps => s.require (dA == dB)
  | .touches => s.require (!(dA == 0 && dB == 0))
  | _ => s

/-- what `init(envA, envB)` needs to know about the two envelopes -/
structure EnvFacts where
  intersects : Bool
  aCoversB : Bool
  bCoversA : Bool
  equal : Bool
  bothNull : Bool

/-- `IMPatternMatcher::requireInteraction(patternMatrix)` -/
def patRequiresInteraction (p : Pat) : Bool :=
  match p with
  | [ii, ib, _, bi, bb, _, _, _, _] =>
    let inter (v : Int) : Bool := v == -2 || decide (v ≥ 0)
    inter ii || inter ib || inter bi || inter bb
  | _ => false

/-- `init(envA, envB)` -/
def PState.initEnv (s : PState) (e : EnvFacts) : PState :=
  match s.kind with
  | .intersects => s.require e.intersects
  | .disjoint => if !e.intersects then s.setValue true else s
  | .contains | .covers => s.require e.aCoversB
  | .within | .coveredBy => s.require e.bCoversA
  | .equalsTopo => (if e.bothNull then s.setValue true else s).require e.equal
  | .pattern p => if patRequiresInteraction p && !e.intersects then s.setValue false else s
  | _ => s

/-- `IMPredicate::updateDimension(locA, locB, dimension)` -/
def PState.updateIM (s : PState) (a b : Loc3) (d : Int) : PState :=
  if d > s.im.get a b then
    let s' := { s with im := s.im.set a b d }
    if isDetermined s'.kind s'.dimA s'.dimB s'.im then s'.setValue (valueIM s'.kind s'.dimA s'.dimB s'.im) else s'
  else s

/-- `updateDimension(locA, locB, dimension)` -/
def PState.update (s : PState) (a b : Loc3) (d : Int) : PState :=
  match s.kind with
  | .intersects => if isIntersection a b then s.setValue true else s
  | .disjoint => if isIntersection a b then s.setValue false else s
  | _ => s.updateIM a b d

/-- `finish()` -/
def PState.finish (s : PState) : PState :=
  match s.kind with
  | .intersects => s.setValue false
  | .disjoint => s.setValue true
  | _ => s.setValue (valueIM s.kind s.dimA s.dimB s.im)

/-- an update event -/
structure Upd where
  a : Loc3
  b : Loc3
  d : Int
deriving Repr

def PState.run (s : PState) (us : List Upd) : PState := us.foldl (fun s u => s.update u.a u.b u.d) s

/-- the matrix the events build up, independently of any predicate -/
def foldIM (m : IM) (us : List Upd) : IM := us.foldl (fun m u => m.raise u.a u.b u.d) m

/-- the four boundary node rules (`algorithm::BoundaryNodeRule`) on the number of line ends at a point -/
def bnMod2 (n : Nat) : Bool := n % 2 == 1
def bnEndpoint (n : Nat) : Bool := n > 0
def bnMultivalent (n : Nat) : Bool := n > 1
def bnMonovalent (n : Nat) : Bool := n == 1

end GeosModel.Relate
