import GeosModel.Base.Env
/-!
# C02 — the reused scratch `Point` of the XY predicate forms

`GEOSPreparedContainsXY_r` / `GEOSPreparedIntersectsXY_r` (capi/geos_ts_c.cpp) do not build a point per call: they
overwrite the one `Point` kept in the context handle with `Point::setXY(x, y)` (include/geos/geom/Point.h) and pass it
to the ordinary prepared predicate.  A `Point` carries its coordinate sequence AND a cached envelope, and the
predicates consult both (envelope short-circuits, `RectangleContains`, `RectangleIntersects`, `RelateNG`).  The state
machine: `setXY` stores the ordinates (adding a coordinate to an empty point, overwriting otherwise) and then runs
`geometryChangedAction()`, which recomputes the envelope from the coordinate.  Ordinates are order-preserving integer
keys of non-NaN doubles (Base/Env).  Core Lean only.
-/
namespace GeosModel.ScratchPoint
open GeosModel

/-- the two members of `geom::Point` that the predicates read -/
structure PointSt where
  coords : List (Int × Int)      -- the CoordinateSequence (size 0 or 1)
  env : Env                      -- the cached `envelope`
deriving Repr, DecidableEq

/-- `Point::computeEnvelopeInternal()` -/
def computeEnv : List (Int × Int) → Env
  | [] => none
  | c :: _ => some ⟨c.1, c.1, c.2, c.2⟩

/-- a freshly constructed point (`GeometryFactory::createPoint(CoordinateXY)`, empty for `none`) -/
def fresh : Option (Int × Int) → PointSt
  | none => ⟨[], none⟩
  | some c => ⟨[c], computeEnv [c]⟩

/-- `Point::setXY(x, y)` -/
def setXY (s : PointSt) (x y : Int) : PointSt :=
  let coords := match s.coords with
    | [] => [(x, y)]                       -- `coordinates.add(x, y)`
    | _ :: r => (x, y) :: r                -- `prev.x = x; prev.y = y`
  { coords, env := computeEnv coords }     -- `geometryChangedAction()`

def run (s : PointSt) (ops : List (Int × Int)) : PointSt := ops.foldl (fun st o => setXY st o.1 o.2) s

/-- the cached envelope is the envelope of the coordinate -/
def Coherent (s : PointSt) : Prop := s.env = computeEnv s.coords ∧ s.coords.length ≤ 1

end GeosModel.ScratchPoint
