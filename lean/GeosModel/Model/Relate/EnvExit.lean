import GeosModel.Model.Relate.Pred
/-!
The per-predicate *requirement flags* of RelateNG (`requireCovers`, `requireInteraction`, `requireExteriorCheck` of
include/geos/operation/relateng/RelatePredicate.h, defaults in TopologyPredicate.h, IMPatternMatcher.cpp,
RelateMatrixPredicate.h) and the envelope test `RelateNG::hasRequiredEnvelopeInteraction` (RelateNG.cpp) that answers
`false` before any geometry is looked at.  These are the early exits of the property's mechanism list that sit in front
of the `updateDimension` state machine of Model/Relate/Pred.lean.  Core Lean only.
-/
namespace GeosModel.Relate

/-- `requireCovers(isSourceA)`: the source geometry must cover the other one (`GEOM_A` = true) -/
def Kind.requireCovers (k : Kind) (isSourceA : Bool) : Bool :=
  match k with
  | .contains | .covers => isSourceA
  | .within | .coveredBy => !isSourceA
  | _ => false

/-- `requireInteraction()`: the predicate can only hold if the two geometries have a point in common -/
def Kind.requireInteraction : Kind → Bool
  | .disjoint | .equalsTopo | .matrix => false
  | .pattern p => patRequiresInteraction p
  | _ => true

/-- `requireExteriorCheck(isSourceA)`: the points of the source geometry must be tested against the Exterior of the other -/
def Kind.requireExteriorCheck (k : Kind) (isSourceA : Bool) : Bool :=
  match k with
  | .intersects | .disjoint => false
  | .contains | .covers => !isSourceA
  | .within | .coveredBy => isSourceA
  | _ => true

/-- `RelateNG::hasRequiredEnvelopeInteraction(b, predicate)` on the three envelope facts it reads; `false` makes
`RelateNG::evaluate` return `false` at once -/
def hasRequiredEnvelopeInteraction (k : Kind) (e : EnvFacts) : Bool :=
  if k.requireCovers true then e.aCoversB
  else if k.requireCovers false then e.bCoversA
  else !(k.requireInteraction && !e.intersects)

/-- the value the DE-9IM definition of predicate `k` assigns to a (complete) matrix -/
def Kind.defValue (k : Kind) (dA dB : Int) (m : IM) : Bool :=
  match k with
  | .intersects => m.isIntersects
  | .disjoint => m.isDisjoint
  | k => valueIM k dA dB m

end GeosModel.Relate
