import GeosModel.Base.IM
/-!
C02: the *relations between answers* of the different evaluation paths of one topological question.
An `Obs` is everything the API returned for one ordered pair (A, B); `consistent` is the conjunction of
the agreements the property demands, written only with the DE-9IM definitions of Base/IM.lean.
Core Lean only.
-/
namespace GeosModel.Relate

/-- the ten named predicates, in the order
intersects disjoint touches crosses within contains overlaps equals covers coveredBy -/
def predsOf (m : IM) (dA dB : Int) : List Bool :=
  [m.isIntersects, m.isDisjoint, m.isTouches dA dB, m.isCrosses dA dB, m.isWithin, m.isContains,
   m.isOverlaps dA dB, m.isEquals dA dB, m.isCovers, m.isCoveredBy]

/-- prepared predicates, in the order
intersects disjoint touches crosses within contains overlaps covers coveredBy containsProperly -/
def prepPredsOf (m : IM) (dA dB : Int) : List Bool :=
  [m.isIntersects, m.isDisjoint, m.isTouches dA dB, m.isCrosses dA dB, m.isWithin, m.isContains,
   m.isOverlaps dA dB, m.isCovers, m.isCoveredBy, m.matchesPat "T**FF*FF*".toList]

structure Obs where
  dA : Int
  dB : Int
  aEmpty : Bool
  bEmpty : Bool
  m : IM                         -- relate(A,B)
  mt : IM                        -- relate(B,A)
  pm : IM                        -- prepared relate(A,B)
  p : List Bool                  -- named predicates (A,B)
  pb : List Bool                 -- named predicates (B,A)
  q : List Bool                  -- prepared(A) predicates vs B
  qb : List Bool                 -- prepared(B) predicates vs A
  pats : List (List Char × Bool × Bool)   -- pattern, relatePattern(A,B), preparedRelatePattern(A,B)
  self : List Bool               -- equals covers coveredBy of (A,A) and of (A, clone A)
deriving Repr

def dropEquals (l : List Bool) : List Bool := l.eraseIdx 7

/-- every way of asking gives the same answer -/
def consistent (o : Obs) : Bool :=
  -- relate(B,A) is the transpose of relate(A,B); prepared relate equals plain relate
  (o.mt == o.m.transpose) && (o.pm == o.m) &&
  -- each named predicate equals what the matrix returned by relate says (equals of two empties is true by fiat: known quirk, checked separately)
  (if o.aEmpty && o.bEmpty then dropEquals o.p == dropEquals (predsOf o.m o.dA o.dB) else o.p == predsOf o.m o.dA o.dB) &&
  (if o.aEmpty && o.bEmpty then dropEquals o.pb == dropEquals (predsOf o.mt o.dB o.dA) else o.pb == predsOf o.mt o.dB o.dA) &&
  -- prepared variants equal the unprepared ones
  (o.q == prepPredsOf o.m o.dA o.dB) && (o.qb == prepPredsOf o.mt o.dB o.dA) &&
  -- pattern matching, plain and prepared
  (o.pats.all fun (p, r, pr) => r == o.m.matchesPat p && pr == r) &&
  -- a non-empty geometry equals, covers and is covered by itself and its clone
  (o.aEmpty || o.self.all id)

/-- the observation an ideal implementation would make if the true matrix is `M` -/
def obsFrom (M : IM) (dA dB : Int) (pats : List (List Char)) : Obs :=
  { dA, dB, aEmpty := false, bEmpty := false, m := M, mt := M.transpose, pm := M,
    p := predsOf M dA dB, pb := predsOf M.transpose dB dA,
    q := prepPredsOf M dA dB, qb := prepPredsOf M.transpose dB dA,
    pats := pats.map fun p => (p, M.matchesPat p, M.matchesPat p),
    self := [true, true, true, true, true, true] }

end GeosModel.Relate
