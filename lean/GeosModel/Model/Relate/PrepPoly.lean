import GeosModel.Base.IM
/-!
The decision core of the prepared-polygon fast paths (src/geom/prep/PreparedPolygonPredicate.cpp,
AbstractPreparedPolygonContains.cpp, PreparedPolygonContainsProperly.cpp, PreparedPolygonIntersects.cpp),
branch by branch.  The geometry is abstracted into the facts the code reads:

* `testLocs`  — the location, in the prepared target, of one point (`getCoordinate()`) of every non-empty component the
                `GeometryComponentFilter` visits in the test geometry, in visiting order;
* `segInt`, `proper`, `nonProper` — what `SegmentIntersectionDetector` (find-all mode) reports for target vs test linework;
* `repLocs`   — the location, in the test geometry (`SimplePointInAreaLocator`), of the representative point of EVERY ring
                / element of the target (`ComponentCoordinateExtracter`), in ring order;
* `full`      — the answer of `fullTopologicalPredicate` (only read on the branch that asks for it);
* the structural facts of `Shape`.

All the filters stop at the first hit (`isDone`); their state is absorbing from then on, so folding over the whole
list gives the same answer.  Core Lean only.
-/
namespace GeosModel.PrepPoly
open GeosModel

structure Shape where
  /-- `AbstractPreparedPolygonContains::isPuntalIgnoringEmpty(test)` -/
  puntalIE : Bool
  /-- `test->isPuntal()` -/
  puntal : Bool
  /-- `test->getDimension() == 2` -/
  dim2 : Bool
  /-- type id of the test geometry is POLYGON or MULTIPOLYGON -/
  polygonal : Bool
  /-- `isSingleShell(target)`: one polygon without holes -/
  targetSingleShell : Bool
  /-- `test->getNumPoints()` -/
  numPoints : Nat
deriving Repr

structure Facts where
  testLocs : List Loc3
  segInt : Bool
  proper : Bool
  nonProper : Bool
  repLocs : List Loc3
deriving Repr

/-- one `filter_ro` call of `OutermostLocationFilter` (`none` = `Location::NONE`) -/
def outerStep (o : Option Loc3) (loc : Loc3) : Option Loc3 :=
  match o with
  | none | some .I => some loc
  | some .B => if loc == .E then some .E else some .B
  | some .E => some .E

/-- `getOutermostTestComponentLocation` -/
def outermost (locs : List Loc3) : Option Loc3 := locs.foldl outerStep none

/-- `isAllTestComponentsInTargetInterior` (`LocationNotMatchingFilter(INTERIOR)`, negated) -/
def allInInterior (locs : List Loc3) : Bool := !(locs.any (· != .I))

/-- `isAnyTestComponentInTarget` (`LocationNotMatchingFilter(EXTERIOR)`) -/
def anyInTarget (locs : List Loc3) : Bool := locs.any (· != .E)

/-- `isAnyTestComponentInTargetInterior` (`LocationMatchingFilter(INTERIOR)`) -/
def anyInInterior (locs : List Loc3) : Bool := locs.any (· == .I)

/-- `isAnyTargetComponentInAreaTest`: the loop over ALL representative points of the target -/
def anyTargetInArea : List Loc3 → Bool
  | [] => false
  | loc :: rest => if loc != .E then true else anyTargetInArea rest

/-- `isProperIntersectionImpliesNotContainedSituation` -/
def properImpliesNotContained (sh : Shape) : Bool := sh.polygonal || sh.targetSingleShell

/-- `evalPointTestGeom` -/
def evalPoint (requireInterior : Bool) (sh : Shape) (f : Facts) (o : Option Loc3) : Bool :=
  if o == some .E then false
  else if !requireInterior then true
  else if o == some .I then true
  else if sh.numPoints ≤ 1 then false
  else anyInInterior f.testLocs

/-- `AbstractPreparedPolygonContains::eval` (`requireInterior` = true: contains, false: covers); `full` is the answer of
the full topological predicate -/
def eval (requireInterior : Bool) (sh : Shape) (f : Facts) (full : Bool) : Bool :=
  let o := outermost f.testLocs
  if sh.puntalIE then evalPoint requireInterior sh f o
  else if o == some .E then false
  else if properImpliesNotContained sh && f.proper then false
  else if f.segInt && !f.nonProper then false
  else if f.segInt then full
  else if sh.dim2 then (if anyTargetInArea f.repLocs then false else true)
  else true

/-- does `eval` reach `fullTopologicalPredicate`? -/
def evalAsksFull (sh : Shape) (f : Facts) : Bool :=
  !sh.puntalIE && !(outermost f.testLocs == some .E) && !(properImpliesNotContained sh && f.proper) &&
    !(f.segInt && !f.nonProper) && f.segInt

/-- `PreparedPolygonContainsProperly::containsProperly` -/
def containsProperly (sh : Shape) (f : Facts) : Bool :=
  if !allInInterior f.testLocs then false
  else if f.segInt then false
  else if sh.dim2 then (if anyTargetInArea f.repLocs then false else true)
  else true

/-- `PreparedPolygonIntersects::intersects` -/
def intersects (sh : Shape) (f : Facts) : Bool :=
  if anyInTarget f.testLocs then true
  else if sh.puntal then false
  else if f.segInt then true
  else if sh.dim2 then (if anyTargetInArea f.repLocs then true else false)
  else false

/-- the wrappers of `PreparedPolygon` for a target that is not a rectangle: envelope short-circuit first -/
def wrapCovers (envCovers : Bool) (v : Bool) : Bool := if !envCovers then false else v
def wrapIntersects (envIntersects : Bool) (v : Bool) : Bool := if !envIntersects then false else v

end GeosModel.PrepPoly
