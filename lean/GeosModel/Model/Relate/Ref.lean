import GeosModel.Base.Kernel
import GeosModel.Base.IM
/-!
Reference DE-9IM of two geometries with integer coordinates, by exact sampling of the planar arrangement
induced by all their segments and points.  Independent of RelateNG's method (no edge stars, no node
sections): every input segment is split at every point where anything meets it; the cells of the
arrangement are

* 0-cells: segment endpoints, intersection points, isolated points      (dimension 0)
* 1-cells: the open sub-segments between consecutive split points        (dimension 1)
* 2-cells: faces; each bounded face touches some 1-cell, so the faces are sampled as the left and right
  sides of every 1-cell, plus the unbounded face                         (dimension 2)

Every cell lies entirely in one of Interior / Boundary / Exterior of each geometry; the matrix entry
(la, lb) is the largest dimension of a cell located (la, lb).  All arithmetic is exact (`Int`; rationals
as integer pairs compared by cross-multiplication).  Collections are handled with union semantics as
documented in RelatePointLocator.h: area over line over point; a point whose surrounding faces are all
inside polygons of the collection is interior even if it lies on polygon boundaries.
Core Lean only.
-/
namespace GeosModel.Relate
open GeosModel.Kernel

/-- rational number `n/d` with `d > 0` -/
structure Q where
  n : Int
  d : Int
deriving Repr

namespace Q
def mk' (n d : Int) : Q := if d < 0 then ⟨-n, -d⟩ else ⟨n, d⟩
def lt (a b : Q) : Bool := a.n * b.d < b.n * a.d
def le (a b : Q) : Bool := a.n * b.d ≤ b.n * a.d
def eq (a b : Q) : Bool := a.n * b.d == b.n * a.d
def mid (a b : Q) : Q := ⟨a.n * b.d + b.n * a.d, 2 * a.d * b.d⟩
def zero : Q := ⟨0, 1⟩
def one : Q := ⟨1, 1⟩
def in01 (a : Q) : Bool := decide (0 ≤ a.n) && decide (a.n ≤ a.d)
end Q

/-- homogeneous point `(x/w, y/w)`, `w > 0`, kept in lowest terms so `==` is point equality -/
structure HPt where
  x : Int
  y : Int
  w : Int
deriving Repr, DecidableEq, BEq

def HPt.norm (p : HPt) : HPt :=
  let g := (Int.gcd (Int.gcd p.x p.y) p.w : Int)
  if g ≤ 1 then p else ⟨p.x / g, p.y / g, p.w / g⟩

def HPt.ofPt (p : Pt) : HPt := ⟨p.x, p.y, 1⟩

structure Seg where
  p : Pt
  q : Pt
deriving Repr, DecidableEq, BEq

def Seg.sqLen (s : Seg) : Int := sqDist s.p s.q
/-- `(q − p) · (b − a)` -/
def Seg.dotv (s : Seg) (a b : Pt) : Int := (s.q.x - s.p.x) * (b.x - a.x) + (s.q.y - s.p.y) * (b.y - a.y)

/-- the point of `s` at parameter `l` -/
def Seg.at (s : Seg) (l : Q) : HPt :=
  HPt.norm ⟨s.p.x * l.d + l.n * (s.q.x - s.p.x), s.p.y * l.d + l.n * (s.q.y - s.p.y), l.d⟩

/-- parameter of the orthogonal projection of `x` on the line of `s` -/
def Seg.proj (s : Seg) (x : Pt) : Q := Q.mk' (s.dotv s.p x) s.sqLen

/-- sign-carrying determinant of (a, b, X) for a homogeneous X -/
def detH (a b : Pt) (x : HPt) : Int :=
  (b.x - a.x) * (x.y - a.y * x.w) - (b.y - a.y) * (x.x - a.x * x.w)

def onSegH (a b : Pt) (x : HPt) : Bool :=
  detH a b x == 0 &&
  decide (min a.x b.x * x.w ≤ x.x) && decide (x.x ≤ max a.x b.x * x.w) &&
  decide (min a.y b.y * x.w ≤ x.y) && decide (x.y ≤ max a.y b.y * x.w)

def crossesH (x : HPt) (a b : Pt) : Bool :=
  let up := decide (a.y * x.w ≤ x.y) && decide (x.y < b.y * x.w)
  let down := decide (b.y * x.w ≤ x.y) && decide (x.y < a.y * x.w)
  if up then decide (detH a b x > 0) else if down then decide (detH a b x < 0) else false

/-- a flattened geometry: isolated points, proper lines, polygons (rings as closed vertex lists) -/
structure Flat where
  pts : List Pt
  lines : List (List Pt)
  polys : List (List (List Pt))
deriving Repr

def Flat.empty : Flat := ⟨[], [], []⟩
def Flat.isEmpty (f : Flat) : Bool := f.pts.isEmpty && f.lines.isEmpty && f.polys.isEmpty

/-- `RelateGeometry::getDimensionReal` -/
def Flat.dimReal (f : Flat) : Int :=
  if f.isEmpty then -1 else if !f.polys.isEmpty then 2 else if !f.lines.isEmpty then 1 else 0

def segsOf (l : List Pt) : List Seg :=
  ((edges l).filter (fun e => e.1 != e.2)).map (fun e => ⟨e.1, e.2⟩)

def Flat.lineSegs (f : Flat) : List Seg := f.lines.flatMap segsOf
def Flat.polySegs (p : List (List Pt)) : List Seg := p.flatMap segsOf
def Flat.ringSegs (f : Flat) : List Seg := f.polys.flatMap Flat.polySegs
def Flat.segs (f : Flat) : List Seg := f.lineSegs ++ f.ringSegs

/-- the four boundary node rules as predicates on the number of line ends at a point -/
inductive BNRule where
  | mod2 | endpoint | multivalent | monovalent
deriving DecidableEq, Repr

def BNRule.inBoundary : BNRule → Nat → Bool
  | .mod2, n => n % 2 == 1
  | .endpoint, n => n > 0
  | .multivalent, n => n > 1
  | .monovalent, n => n == 1

/-- parameters at which segment `t` cuts segment `s` -/
def cutParams (s t : Seg) : List Q :=
  let d1 := det s.p s.q t.p
  let d2 := det s.p s.q t.q
  if d1 == 0 && d2 == 0 then ([s.proj t.p, s.proj t.q]).filter Q.in01
  else if (d1 ≤ 0 && d2 ≥ 0) || (d1 ≥ 0 && d2 ≤ 0) then
    let num := s.dotv s.p t.p * (d1 - d2) + d1 * s.dotv t.p t.q
    let q := Q.mk' num (s.sqLen * (d1 - d2))
    if q.in01 then [q] else []
  else []

def ptParams (s : Seg) (x : Pt) : List Q :=
  if det s.p s.q x == 0 then ([s.proj x]).filter Q.in01 else []

def dedupQ : List Q → List Q
  | a :: b :: r => if a.eq b then dedupQ (a :: r) else a :: dedupQ (b :: r)
  | l => l
termination_by l => l.length

/-- sorted distinct split parameters of `s` -/
def splitParams (s : Seg) (allSegs : List Seg) (allPts : List Pt) : List Q :=
  let ps := [Q.zero, Q.one] ++ allSegs.flatMap (cutParams s) ++ allPts.flatMap (ptParams s)
  dedupQ (ps.mergeSort Q.le)

/-- does the ray that starts at parameter `lm` of `s`, runs along `s` and is displaced infinitesimally
to the left (`left = true`) or right of it, cross the edge (a,b)? -/
def sideCross (s : Seg) (lm : Q) (left : Bool) (a b : Pt) : Bool :=
  let oa := det s.p s.q a
  let ob := det s.p s.q b
  let ca := if left then decide (oa > 0) else decide (oa < 0)
  let cb := if left then decide (ob > 0) else decide (ob < 0)
  if ca == cb then false
  else
    let num := s.dotv s.p a * (oa - ob) + oa * s.dotv a b
    let lx := Q.mk' num (s.sqLen * (oa - ob))
    lm.lt lx

/-- is the face on the given side of the 1-cell inside some polygon (even–odd over all rings of one polygon)? -/
def sideIn (polys : List (List (List Pt))) (s : Seg) (lm : Q) (left : Bool) : Bool :=
  polys.any fun p =>
    ((p.flatMap edges).filter (fun e => sideCross s lm left e.1 e.2)).length % 2 == 1

def onAnyLine (f : Flat) (x : HPt) : Bool :=
  f.lines.any fun l => (edges l).any fun e => onSegH e.1 e.2 x

def endCount (f : Flat) (x : HPt) : Nat :=
  (f.lines.map fun l =>
    (match l.head? with | some h => if HPt.ofPt h == x then 1 else 0 | none => 0) +
    (match l.getLast? with | some h => if HPt.ofPt h == x then 1 else 0 | none => 0)).sum

/-- point in polygon for an isolated homogeneous point (not incident to any 1-cell) -/
def inPolyH (x : HPt) (p : List (List Pt)) : Bool :=
  ((p.flatMap edges).filter (fun e => crossesH x e.1 e.2)).length % 2 == 1

/-- one 1-cell with everything the matrix needs -/
structure Cell1 where
  a : HPt        -- endpoints (0-cells)
  b : HPt
  locA : Loc3
  locB : Loc3
  leftA : Bool   -- face on the left inside A's polygons?
  rightA : Bool
  leftB : Bool
  rightB : Bool
deriving Repr

def cellLoc (f : Flat) (l r : Bool) (m : HPt) : Loc3 :=
  if l && r then .I else if l || r then .B else if onAnyLine f m then .I else .E

def cellsOf (A B : Flat) (allSegs : List Seg) (allPts : List Pt) (s : Seg) : List Cell1 :=
  let ps := splitParams s allSegs allPts
  (ps.zip ps.tail).map fun (l1, l2) =>
    let lm := Q.mid l1 l2
    let m := s.at lm
    let la := sideIn A.polys s lm true;  let ra := sideIn A.polys s lm false
    let lb := sideIn B.polys s lm true;  let rb := sideIn B.polys s lm false
    { a := s.at l1, b := s.at l2, locA := cellLoc A la ra m, locB := cellLoc B lb rb m,
      leftA := la, rightA := ra, leftB := lb, rightB := rb }

def nodeLoc (f : Flat) (rule : BNRule) (v : HPt) (sides : List Bool) : Loc3 :=
  let area : Option Loc3 :=
    if sides.isEmpty then (if f.polys.any (inPolyH v) then some .I else none)
    else if sides.all id then some .I else if sides.any id then some .B else none
  match area with
  | some l => l
  | none =>
    if onAnyLine f v then (if rule.inBoundary (endCount f v) then .B else .I)
    else if f.pts.any (fun p => HPt.ofPt p == v) then .I else .E

def faceLoc (inside : Bool) : Loc3 := if inside then .I else .E

/-- the reference matrix -/
def refIM (rule : BNRule) (A B : Flat) : IM :=
  let allSegs := (A.segs ++ B.segs).eraseDups
  let allPts := A.pts ++ B.pts
  let cells := allSegs.flatMap (cellsOf A B allSegs allPts)
  -- 2-cells and 1-cells
  let m := cells.foldl (fun (m : IM) c =>
    let m := m.raise c.locA c.locB 1
    let m := m.raise (faceLoc c.leftA) (faceLoc c.leftB) 2
    m.raise (faceLoc c.rightA) (faceLoc c.rightB) 2) (IM.allF.set .E .E 2)
  -- 0-cells
  let nodes := ((cells.flatMap fun c => [c.a, c.b]) ++ allPts.map HPt.ofPt).eraseDups
  nodes.foldl (fun (m : IM) v =>
    let inc := cells.filter (fun c => c.a == v || c.b == v)
    let sa := inc.flatMap (fun c => [c.leftA, c.rightA])
    let sb := inc.flatMap (fun c => [c.leftB, c.rightB])
    m.raise (nodeLoc A rule v sa) (nodeLoc B rule v sb) 0) m

end GeosModel.Relate
