import GeosModel.Base.Kernel
import GeosModel.Base.Env
import GeosModel.Model.Kernel.SegSeg
import GeosModel.Model.Kernel.PolyLocate
/-!
# C02 — the rectangle fast path `operation::predicate::RectangleIntersects::intersects`, ported over `Int` points

`Geometry::intersects` (either argument an axis-parallel rectangle) and `PreparedPolygon::intersects` (prepared
rectangle) do not evaluate a relate matrix: they run the three short-circuited visitors of
src/operation/predicate/RectangleIntersects.cpp, followed here in order:

* the envelope of the whole test geometry must intersect the rectangle's;
* `EnvelopeIntersectsVisitor`: some element whose envelope intersects the rectangle's is covered by it, or has its
  x-range or its y-range inside the rectangle's ("bisected");
* `ContainsPointVisitor`: some *polygon* element (envelopes intersecting) has one of the first four rectangle vertices
  inside its envelope and not in the exterior by `SimplePointInAreaLocator::locatePointInSurface`;
* `LineIntersectsVisitor`: some element (envelopes intersecting) has a linear component — for a polygon EVERY ring,
  shell and holes (`LinearComponentExtracter::getLines`) — with a segment for which
  `LineIntersector::computeIntersection` against a segment of the rectangle's ring reports an intersection.

`ShortCircuitedGeometryVisitor::applyTo` recurses through collections and stops at the first deciding element, so a
geometry is its list of non-collection elements and each visitor is an `any`.  Core Lean only.
-/
namespace GeosModel.RectFast
open GeosModel GeosModel.Kernel

/-- a non-collection element; an empty element has no vertices -/
inductive Elem where
  | point (p : List Pt)                 -- `[]` empty, `[p]` otherwise
  | line (pts : List Pt)
  | polygon (rings : List (List Pt))    -- shell :: holes
deriving Repr, DecidableEq

def boxOf (p : Pt) : Box := ⟨p.x, p.x, p.y, p.y⟩

/-- `Envelope::expandToInclude` over the vertices; the null envelope for none -/
def envOfPts : List Pt → Env
  | [] => none
  | p :: r => Env.union (some (boxOf p)) (envOfPts r)

/-- `getEnvelopeInternal()`: a polygon's envelope is its shell's -/
def Elem.env : Elem → Env
  | .point p => envOfPts p
  | .line l => envOfPts l
  | .polygon [] => none
  | .polygon (shell :: _) => envOfPts shell

/-- `LinearComponentExtracter::getLines`: the line itself; every ring of a polygon; nothing for a point -/
def Elem.lines : Elem → List (List Pt)
  | .point _ => []
  | .line l => [l]
  | .polygon rings => rings

/-- envelope of the whole geometry -/
def geomEnv : List Elem → Env
  | [] => none
  | e :: r => Env.union e.env (geomEnv r)

/-- the two "bisected" tests of `EnvelopeIntersectsVisitor::visit` -/
def bisected : Env → Env → Bool
  | some r, some e => (decide (e.minx ≥ r.minx) && decide (e.maxx ≤ r.maxx)) || (decide (e.miny ≥ r.miny) && decide (e.maxy ≤ r.maxy))
  | _, _ => false

/-- `EnvelopeIntersectsVisitor::visit` sets `intersectsVar` -/
def envStage (re : Env) (e : Elem) : Bool :=
  Env.inter re e.env && (Env.covers re e.env || bisected re e.env)

/-- `ContainsPointVisitor::visit` sets `containsPointVar` -/
def cornerStage (re : Env) (rect : List Pt) (e : Elem) : Bool :=
  match e with
  | .polygon rings =>
    Env.inter re e.env &&
      (rect.take 4).any fun c => Env.containsPt e.env c.x c.y && (PolyLocate.locatePointInPolygon c rings != Loc.exterior)
  | _ => false

/-- `li.computeIntersection(p00, p01, p10, p11); li.hasIntersection()` -/
def segHas (a b c d : Pt) : Bool := (SegSeg.computeIntersect a b c d).code != 0

/-- `SegmentIntersectionTester::hasIntersection(line, testLine)` -/
def lineHas (rect l : List Pt) : Bool :=
  (edges rect).any fun s => (edges l).any fun t => segHas s.1 s.2 t.1 t.2

/-- `LineIntersectsVisitor::visit` sets `intersectsVar` -/
def lineStage (re : Env) (rect : List Pt) (e : Elem) : Bool :=
  Env.inter re e.env && e.lines.any (lineHas rect)

/-- `RectangleIntersects::intersects(geom)` for the rectangle whose shell is `rect` (five vertices) -/
def rectIntersects (rect : List Pt) (g : List Elem) : Bool :=
  let re := envOfPts rect
  Env.inter re (geomEnv g) &&
    (g.any (envStage re) || g.any (cornerStage re rect) || g.any (lineStage re rect))

/-- which visitor decides: 0 envelopes disjoint, 1 envelope visitor, 2 corner visitor, 3 segment visitor, 4 none (false) -/
def rectStage (rect : List Pt) (g : List Elem) : Nat :=
  let re := envOfPts rect
  if !Env.inter re (geomEnv g) then 0
  else if g.any (envStage re) then 1
  else if g.any (cornerStage re rect) then 2
  else if g.any (lineStage re rect) then 3 else 4

/-! ### the reference the fast path is compared with on valid input: an intersection *witnessed* by a vertex of the
element in the closed rectangle, a rectangle corner in the closed polygon, or two crossing segments -/

def inRect (re : Env) (p : Pt) : Bool := Env.containsPt re p.x p.y

def Elem.verts : Elem → List Pt
  | .point p => p
  | .line l => l
  | .polygon rings => rings.flatMap id

/-- witnessed intersection of the closed rectangle with one element (specification predicates of Base/Kernel) -/
def witnessed (rect : List Pt) (e : Elem) : Bool :=
  let re := envOfPts rect
  e.verts.any (inRect re) ||
  (match e with
   | .polygon rings => (rect.take 4).any fun c => locateInPolygon c rings != Loc.exterior
   | _ => false) ||
  e.lines.any fun l => (edges rect).any fun s => (edges l).any fun t => segRel s.1 s.2 t.1 t.2 != SegRel.disjoint

def refIntersects (rect : List Pt) (g : List Elem) : Bool := g.any (witnessed rect)

end GeosModel.RectFast
