import GeosModel.Model.WKB.Cxx
import GeosModel.Model.WKB.Resource
/-!
# C11 — the vocabulary the regenerated reader guards are stated in

`translate/specs/wkb_guards.py` regenerates the bounds checks of `ByteOrderDataInStream` (every primitive read), the header part
of `WKBReader::readGeometry` (order byte, type word, flags, SRID) and the count guards / child loops of the `WKBReader::read*`
functions into `Generated/WkbGuards.lean`.  That code talks about the stream object the hand-written model (`Model/WKB/Read.lean`)
has replaced by "the remaining bytes + the byte order": it is named here (`Dis`) together with the exception class names the
model's `Err` values stand for, so that the bridge theorems (`Props/C11Gen.lean`) have something to be about.  Core Lean only.
-/
namespace GeosModel.WKB
open GeosModel

/-- the exception class a model error stands for -/
def Err.name : Err → String
  | .eof | .unknownType | .tooSmall | .childType => "ParseException"
  | .construct => "IllegalArgumentException"
  | .fuel => "fuel"
  | .hex => "hex"

def liftE {α : Type} : Except Err α → Except String α
  | .ok a => .ok a
  | .error e => .error e.name

/-- the byte order a value of the member `byteOrder` selects: `ENDIAN_BIG` (0) or, for anything else, little endian
(`ByteOrderValues::get*` test `byteOrder == ENDIAN_BIG` only: `C09Gen.gen_getUnsigned_other`) -/
def orderOf (bo : Int) : Order := if bo = 0 then .be else .le

/-- `io::ByteOrderDataInStream`: the member `byteOrder` and the bytes from `buf` to `end` -/
structure Dis where
  order : Int
  buf : List UInt8
deriving Repr, DecidableEq

def Dis.size (d : Dis) : Nat := d.buf.length
def Dis.setOrder (d : Dis) (o : Int) : Dis := { d with order := o }

/-- `readByte()` (the value as an `unsigned char`) -/
def Dis.readByte (d : Dis) : Except String (Nat × Dis) :=
  match _root_.GeosModel.WKB.readByte d.buf with
  | .ok (b, r) => .ok (b.toNat, { d with buf := r })
  | .error e => .error e.name

/-- `readUnsigned()` -/
def Dis.readUnsigned (d : Dis) : Except String (Nat × Dis) :=
  match readU32 (orderOf d.order) d.buf with
  | .ok (v, r) => .ok (v, { d with buf := r })
  | .error e => .error e.name

/-- `readInt()`: the same four bytes as a two's complement `int32_t` -/
def Dis.readInt (d : Dis) : Except String (Int × Dis) :=
  match readU32 (orderOf d.order) d.buf with
  | .ok (v, r) => .ok (u32ToInt v, { d with buf := r })
  | .error e => .error e.name

/-- `readDouble()` / `readLong()`: eight bytes as a 64-bit pattern -/
def Dis.readDouble (d : Dis) : Except String (UInt64 × Dis) :=
  match readU64 (orderOf d.order) d.buf with
  | .ok (v, r) => .ok (v, { d with buf := r })
  | .error e => .error e.name

/-- `WKBReader::minMemSize(type, n)` against the stream (`C09Gen.gen_minMemSize_eq` is the bridge of its body) -/
def Dis.minMemSize (d : Dis) (ty : TypeId) (n : Nat) : Except String Unit :=
  if d.size < n * minUnit ty then .error "ParseException" else .ok ()

/-- the first half of `readGeometry` without the final look-up of the type code: order byte, type word (decoded), SRID.
Returns ((geometryType, SRID), hasZ, hasM, stream). -/
def readHeaderRaw (d : Dis) : Except String ((Nat × Int) × Bool × Bool × Dis) :=
  match d.readByte with
  | .error e => .error e
  | .ok (b, d) =>
    let d := if b = 1 then d.setOrder 1 else if b = 0 then d.setOrder 0 else d
    match d.readUnsigned with
    | .error e => .error e
    | .ok (t, d) =>
      match decodeType t with
      | (gt, z, m, true) =>
        match d.readInt with
        | .error e => .error e
        | .ok (v, d) => .ok ((gt, v), z, m, d)
      | (gt, z, m, false) => .ok ((gt, 0), z, m, d)

/-- `for (i < n) v.push_back(read())` over the stream, for a reader `f` that may throw -/
def readManyD {α : Type} (f : Dis → Except String (α × Dis)) : Nat → Dis → Except String (List α × Dis)
  | 0, d => .ok ([], d)
  | n + 1, d =>
    match f d with
    | .error e => .error e
    | .ok (a, d) =>
      match readManyD f n d with
      | .error e => .error e
      | .ok (as, d) => .ok (a :: as, d)

/-! ### what the regenerated `WKBReader::read*` functions are proved equal to (`Props/C11Gen.lean`) -/

/-- `n` iterations of a state transformer that may throw -/
def iterE {σ : Type} (step : σ → Except String σ) : Nat → σ → Except String σ
  | 0, s => .ok s
  | n + 1, s => match step s with
    | .error e => .error e
    | .ok s' => iterE step n s'


/-- count, `minMemSize`, one child per iteration, constructor: what every collection reader of `WKBReader` does -/
def readCollD {F GE : Type} (ty : TypeId) (rg : Dis → Except String (GE × Dis)) (mk : F → List GE → Except String GE) (f : F) (d : Dis) :
    Except String (GE × Dis) :=
  match d.readUnsigned with
  | .error e => .error e
  | .ok (n, d) =>
    match d.minMemSize ty n with
    | .error e => .error e
    | .ok _ =>
      match readManyD rg n d with
      | .error e => .error e
      | .ok (gs, d) =>
        match mk f gs with
        | .error e => .error e
        | .ok g => .ok (g, d)


/-- count word, `minMemSize`, `readCoordinateSequence`, constructor -/
def readSizedD {F SQ GE : Type} (ty : TypeId) (rcs : Dis → Nat → Except String (SQ × Dis)) (mk : F → SQ → Except String GE) (f : F) (d : Dis) :
    Except String (GE × Dis) :=
  match d.readUnsigned with
  | .error e => .error e
  | .ok (n, d) =>
    match d.minMemSize ty n with
    | .error e => .error e
    | .ok _ =>
      match rcs d n with
      | .error e => .error e
      | .ok (s, d) =>
        match mk f s with
        | .error e => .error e
        | .ok g => .ok (g, d)


/-- `readPolygon`: count, `minMemSize(GEOS_POLYGON, n)` (4 bytes per announced ring), the shell (an empty ring when `n = 0`), then
`n − 1` holes one by one, then the constructor; allocations (`operator new`) may throw -/
def readPolygonD {F SQ GE : Type} (newSeq3 : Nat → Bool → Bool → Except String SQ) (mkRing : F → SQ → Except String GE)
    (rlr : Dis → Except String (GE × Dis)) (mk2 : F → Option GE → List GE → Except String GE) (mk1 : F → Option GE → Except String GE)
    (f : F) (z m : Bool) (d : Dis) : Except String (GE × Dis) :=
  match d.readUnsigned with
  | .error e => .error e
  | .ok (n, d) =>
    match d.minMemSize .polygon n with
    | .error e => .error e
    | .ok _ =>
      match (if n = 0 then
               (match newSeq3 0 z m with
                | .error e => .error e
                | .ok sq => match mkRing f sq with | .error e => .error e | .ok g => .ok (g, d))
             else rlr d) with
      | .error e => .error e
      | .ok (shell, d) =>
        if n > 1 then
          match readManyD rlr (n - 1) d with
          | .error e => .error e
          | .ok (hs, d) =>
            match mk2 f (some shell) hs with
            | .error e => .error e
            | .ok g => .ok (g, d)
        else
          match mk1 f (some shell) with
          | .error e => .error e
          | .ok g => .ok (g, d)


/-- a child reader of the model (byte order and remaining bytes threaded separately) as a reader on the stream object -/
def onDis (f : Order → List UInt8 → Except Err (G × Order × List UInt8)) (d : Dis) : Except String (G × Dis) :=
  match f (orderOf d.order) d.buf with
  | .error e => .error e.name
  | .ok (g, o, bs) => .ok (g, ⟨o.code, bs⟩)


end GeosModel.WKB
