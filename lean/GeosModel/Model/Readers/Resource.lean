import GeosModel.Model.WKB.Resource
import GeosModel.Model.WKT.Read
/-!
C11, executable side shared by the driver and the theorems: depth measures of the two reader models, the
well-formedness predicate of what the WKT reader may return, and the WKT witness family of `wkt_depth_unbounded`.

* WKB: the fuel of `WKB.readGeom` *is* the number of nested `readGeometry` activations; `wkbDepth` is the least
  budget that does not run out (`none` when even `length + 1` does not suffice — never, `C11.WKB.read_never_out_of_fuel`).
* WKT: the fuel of the `WKT.read*` functions counts *model* activations (sibling loops are recursive in the model,
  iterative in the C++), so it over-approximates the C++ stack; the C++ nesting is `gcDepth` of the returned tree
  (one `readGeometryTaggedText → readGeometryCollectionText` pair per level) and, for rejected inputs, at most
  `parenDepth` of the token list.
Core Lean only.
-/
namespace GeosModel.Readers
open GeosModel

/-! ### WKB -/

def wkbRunsOut (arc : WKB.ArcOracle) (bs : List UInt8) (d : Nat) : Bool :=
  match WKB.readGeom arc d .le bs with
  | .error .fuel => true
  | _ => false

/-- bisection for the least `d ∈ (lo, hi]` with `¬ wkbRunsOut d`, given `wkbRunsOut lo` and `¬ wkbRunsOut hi` -/
def bisect (p : Nat → Bool) : Nat → Nat → Nat → Nat
  | 0, _, hi => hi
  | k + 1, lo, hi =>
    if hi ≤ lo + 1 then hi
    else
      let mid := (lo + hi) / 2
      if p mid then bisect p k mid hi else bisect p k lo mid

/-- number of nested `readGeometry` activations the WKB reader needs on `bs` -/
def wkbDepth (arc : WKB.ArcOracle) (bs : List UInt8) : Nat :=
  bisect (wkbRunsOut arc bs) 64 0 (bs.length / 5 + 1)

/-- the witness of `C11.WKB.depth_unbounded` as explicit bytes: `d` × (`01 07000000 01000000`) then POINT (1 2)
(`= WKB.nestBytes d`, theorem `C11.wkbNest_eq`) -/
def wkbNest : Nat → List UInt8
  | 0 => [1, 1, 0, 0, 0, 0, 0, 0, 0, 0, 0, 0xf0, 0x3f, 0, 0, 0, 0, 0, 0, 0, 0x40]
  | d + 1 => [1, 7, 0, 0, 0, 1, 0, 0, 0] ++ wkbNest d

/-- regression witness of `C11.WKB.alloc_over_linear`: `k` nested collections, level `j` claiming `j − 1` elements
(`= WKB.over k`, theorem `C11.wkbOver_eq`) — the family on which the reader's allocation was quadratic while child
vectors were sized from the claimed element count (before /repo a208e3db7) -/
def wkbOver : Nat → List UInt8
  | 0 => []
  | k + 1 => [1, 7, 0, 0, 0] ++ (WKB.putU32 .le k ++ wkbOver k)

/-! ### WKT -/
open WKT

/-- deepest parenthesis nesting of a token list (closing below zero is ignored) -/
def parenDepthAux : List Tok → Nat → Nat → Nat
  | [], _, best => best
  | .lp :: r, cur, best => parenDepthAux r (cur + 1) (max best (cur + 1))
  | .rp :: r, cur, best => parenDepthAux r (cur - 1) best
  | _ :: r, cur, best => parenDepthAux r cur best

def parenDepth (ts : List Tok) : Nat := parenDepthAux ts 0 0

mutual
  /-- nesting depth of GEOMETRYCOLLECTIONs in a tree -/
  def gcDepth : G → Nat
    | .collection gs => gcDepths gs + 1
    | _ => 0
  def gcDepths : List G → Nat
    | [] => 0
    | g :: gs => max (gcDepth g) (gcDepths gs)
end

def isPointG : G → Bool | .point _ => true | _ => false
def isLineG : G → Bool | .lineString _ => true | _ => false
def isPolygonG : G → Bool | .polygon _ _ => true | _ => false

mutual
  /-- the constructor invariants of the 13 geometry classes, in the WKT model's vocabulary (`WKT.ringOK`,
  `WKT.contiguous`, …; the floating-point arc-envelope check of circular strings is not part of the WKT model —
  the driver applies the C09 oracle to the returned tree) -/
  def WFT : G → Bool
    | .point s => decide (s.pts.length ≤ 1)
    | .lineString s => decide (s.pts.length ≠ 1)
    | .linearRing s => ringOK s
    | .circularString s => decide (s.pts.length ≠ 2)
    | .polygon sh hs => ringOK sh && hs.all ringOK && !(sh.pts.isEmpty && hs.any (fun h => !h.pts.isEmpty))
    | .compoundCurve gs => gs.all isSimpleCurve && WFTs gs && contiguous gs
    | .curvePolygon gs =>
      gs.all isCurve && WFTs gs &&
        (match gs with
         | [] => true
         | sh :: hs => !(isEmpty sh && hs.any (fun h => !isEmpty h)))
    | .multiPoint gs => gs.all isPointG && WFTs gs
    | .multiLineString gs => gs.all isLineG && WFTs gs
    | .multiPolygon gs => gs.all isPolygonG && WFTs gs
    | .multiCurve gs => gs.all isCurve && WFTs gs
    | .multiSurface gs => gs.all isSurface && WFTs gs
    | .collection gs => WFTs gs
  def WFTs : List G → Bool
    | [] => true
    | g :: gs => WFT g && WFTs gs
end

/-- POINT (1 2) -/
def pt12 : G := .point ⟨false, false, [⟨0x3ff0000000000000, 0x4000000000000000, nanBits, nanBits⟩]⟩

/-- POINT (1 2) nested in `d` GEOMETRYCOLLECTIONs -/
def nestG : Nat → G
  | 0 => pt12
  | d + 1 => .collection [nestG d]

/-- `GEOMETRYCOLLECTION (` × d `POINT (1 2)` `)` × d as tokens -/
def nestToks (d : Nat) : List Tok := writeToks {} (nestG d)

end GeosModel.Readers
