/-!
# `geom::util::GeometryFixer`: type dispatch and the keep-collapsed decision table

Source: /repo/src/geom/util/GeometryFixer.cpp.  The geometric sub-operations (buffer-by-zero of a ring, difference
with the holes, union of the elements) are abstracted to the *kind* of their result (`Area`), and coordinate
cleaning (`RepeatedPointRemover::removeRepeatedAndInvalidPoints`) to the number of points it leaves; everything
else — which function handles which type, what happens to `null` element results, when a lower-dimensional
geometry comes back — is the C++ control flow, branch by branch.

Quirks kept on purpose (they are what the code does):
* `fixCollection` fixes every element with the caller's keep-collapsed setting (since the /repo commit "fix:
  GeometryFixer::fixCollection must hand keepCollapsed down to the elements"; before, it called the *static* `fix(elem)`,
  which builds a fresh fixer with `isKeepCollapsed = false`, so collapses inside a GeometryCollection were never kept —
  finding F5 of C17; that behaviour is kept below as `fixDropping` for the regression clause of the driver);
* a polygon whose shell collapses is, with keep-collapsed, handed to `fixLineStringElement` (since /repo commit
  1fc4024a4; before it was `fixLineString`, whose `null` became `LINESTRING EMPTY` instead of `POLYGON EMPTY` and broke
  idempotence — finding F4 of C17);
* a MultiLineString with exactly one surviving element returns that element itself (LineString or Point);
* `getNumGeometries() == 0` (an empty Multi* / collection) is cloned unchanged; an empty atomic geometry is not
  (its `getNumGeometries()` is 1) and goes through its `fixX`.
Core Lean only.
-/
namespace GeosModel.Fix

inductive Ty where
  | point | lineString | linearRing | polygon | multiPoint | multiLineString | multiPolygon | collection
deriving DecidableEq, Repr, Inhabited

/-- topological dimension of a type (`collection` has none of its own: −1) -/
def Ty.dim : Ty → Int
  | .point | .multiPoint => 0
  | .lineString | .linearRing | .multiLineString => 1
  | .polygon | .multiPolygon => 2
  | .collection => -1

/-- kind of an areal sub-result (buffer by zero, difference, union) -/
inductive Area where
  | empty | polygon | multiPolygon
deriving DecidableEq, Repr, Inhabited

/-- what the fixer's control flow depends on -/
inductive Shape where
  | point (empty validCoord : Bool)
  | line (empty : Bool) (clean : Nat)                        -- `clean` = points left after removing repeated / invalid ones
  | ring (empty : Bool) (clean : Nat) (ringValid : Bool)      -- `ringValid` = the cleaned ring passes isValid
  | polygon (shellEmpty : Bool) (shellArea : Area) (shellClean : Nat) (nHoles : Nat) (withHoles : Area)
  | multiPoint (ps : List Shape)
  | multiLine (ls : List Shape)
  | multiPolygon (ps : List Shape) (unionTy : Ty)             -- `unionTy` = type OverlayNGRobust::Union gives for the fixed elements
  | collection (gs : List Shape)
deriving Repr, Inhabited

/-- result: an atomic / multi geometry of a type, or a GeometryCollection of results -/
inductive Res where
  | atom (ty : Ty) (empty : Bool)
  | coll (kids : List Res)
deriving Repr, Inhabited

def Area.res : Area → Res
  | .empty => .atom .polygon true
  | .polygon => .atom .polygon false
  | .multiPolygon => .atom .multiPolygon false

def Res.isEmpty : Res → Bool
  | .atom _ e => e
  | .coll ks => ks.isEmpty            -- only used for element results, which are never collections

def Res.ty : Res → Ty
  | .atom t _ => t
  | .coll _ => .collection

/-- `fixPointElement` -/
def fixPointElement (empty validCoord : Bool) : Option Res :=
  if empty || !validCoord then none else some (.atom .point false)

/-- `fixLineStringElement` -/
def fixLineStringElement (keep empty : Bool) (clean : Nat) : Option Res :=
  if empty then none
  else if keep && clean == 1 then some (.atom .point false)
  else if clean ≤ 1 then none
  else some (.atom .lineString false)

/-- `fixLineString` -/
def fixLineString (keep empty : Bool) (clean : Nat) : Res :=
  match fixLineStringElement keep empty clean with
  | none => .atom .lineString true
  | some r => r

/-- `fixLinearRingElement` (`LinearRing::MINIMUM_VALID_SIZE` = 3) -/
def fixLinearRingElement (keep empty : Bool) (clean : Nat) (ringValid : Bool) : Option Res :=
  if empty then none
  else if keep && clean == 1 then some (.atom .point false)
  else if keep && clean > 1 && clean ≤ 3 then some (.atom .lineString false)
  else if clean ≤ 3 then none
  else if ringValid then some (.atom .linearRing false) else some (.atom .lineString false)

/-- `fixPolygonElement` -/
def fixPolygonElement (keep shellEmpty : Bool) (shellArea : Area) (shellClean nHoles : Nat) (withHoles : Area) : Option Res :=
  if shellArea == .empty then
    (if keep then fixLineStringElement keep shellEmpty shellClean else none)
  else if nHoles == 0 then some shellArea.res
  else some withHoles.res

def Shape.isLineLike : Shape → Bool
  | .line .. => true
  | _ => false

/-- what the element loops apply to each element: `fixPointElement` / `fixLineStringElement` / `fixPolygonElement` of an
element of the right kind (elements of another kind do not occur in a well-typed Multi*) -/
def Shape.pointElem : Shape → Option Res
  | .point e v => fixPointElement e v
  | _ => none
def Shape.lineElem (keep : Bool) : Shape → Option Res
  | .line e c => fixLineStringElement keep e c
  | _ => none
def Shape.polyElem (keep : Bool) : Shape → Option Res
  | .polygon se a c n w => fixPolygonElement keep se a c n w
  | _ => none

mutual
  /-- `GeometryFixer::getResult` -/
  def fix (keep : Bool) : Shape → Res
    | .point e v => (fixPointElement e v).getD (.atom .point true)
    | .line e c => fixLineString keep e c
    | .ring e c v => (fixLinearRingElement keep e c v).getD (.atom .linearRing true)
    | .polygon se a c n w => (fixPolygonElement keep se a c n w).getD (.atom .polygon true)
    | .multiPoint ps =>
      if ps.isEmpty then .atom .multiPoint true
      else .atom .multiPoint ((ps.filterMap Shape.pointElem).isEmpty)
    | .multiLine ls =>
      if ls.isEmpty then .atom .multiLineString true
      else
        let fixed := ls.filterMap (Shape.lineElem keep)
        match fixed with
        | [one] => one
        | _ => if fixed.any (fun r => r.ty != .lineString) then .coll fixed else .atom .multiLineString fixed.isEmpty
    | .multiPolygon ps unionTy =>
      if ps.isEmpty then .atom .multiPolygon true
      else
        let fixed := (ps.filterMap (Shape.polyElem keep)).filter fun r => !r.isEmpty
        if fixed.isEmpty then .atom .multiPolygon true else .atom unionTy false
    | .collection gs => if gs.isEmpty then .atom .collection true else .coll (fixList keep gs)
  /-- `fixCollection`: every element through a fixer of its own with the same keep-collapsed setting -/
  def fixList (keep : Bool) : List Shape → List Res
    | [] => []
    | g :: gs => fix keep g :: fixList keep gs
end

/-! ### the behaviour before the fix of `fixCollection` (regression reference)

`fixDropping` is `fix` as GEOS computed it before `fixCollection` handed keep-collapsed down: the elements of a
GeometryCollection were fixed by the static `fix(elem)`, i.e. with keep-collapsed off, at every nesting depth.  The
driver's `keep-collapsed` clause uses it to recognise a relapse: on an input where `fix` and `fixDropping` differ, an
implementation that does not return `fix` has lost the setting inside a collection again (`Props/C17`:
`fixDropping_false`, `fixDropping_atomic`, `collection_dropped_keep_collapsed`). -/
mutual
  def fixDropping (keep : Bool) : Shape → Res
    | .collection gs => if gs.isEmpty then .atom .collection true else .coll (fixDroppingList gs)
    | .point e v => fix keep (.point e v)
    | .line e c => fix keep (.line e c)
    | .ring e c v => fix keep (.ring e c v)
    | .polygon se a c n w => fix keep (.polygon se a c n w)
    | .multiPoint ps => fix keep (.multiPoint ps)
    | .multiLine ls => fix keep (.multiLine ls)
    | .multiPolygon ps u => fix keep (.multiPolygon ps u)
  def fixDroppingList : List Shape → List Res
    | [] => []
    | g :: gs => fixDropping false g :: fixDroppingList gs
end

/-! ### the result-type rule -/

/-- declared type of an input shape -/
def Shape.ty : Shape → Ty
  | .point .. => .point | .line .. => .lineString | .ring .. => .linearRing | .polygon .. => .polygon
  | .multiPoint _ => .multiPoint | .multiLine _ => .multiLineString | .multiPolygon .. => .multiPolygon
  | .collection _ => .collection

/-- types a fix of an input of type `t` may return -/
def allowed (keep : Bool) : Ty → List Ty
  | .point => [.point]
  | .lineString => [.lineString] ++ (if keep then [.point] else [])
  | .linearRing => [.linearRing, .lineString] ++ (if keep then [.point] else [])
  | .polygon => [.polygon, .multiPolygon] ++ (if keep then [.lineString, .point] else [])
  | .multiPoint => [.multiPoint]
  | .multiLineString => [.multiLineString, .lineString] ++ (if keep then [.point, .collection] else [])
  | .multiPolygon => [.polygon, .multiPolygon]
  | .collection => [.collection]

/-- the multipolygon union oracle is *areal* unless collapsed elements were kept -/
def Shape.unionOk (keep : Bool) : Shape → Bool
  | .multiPolygon _ u => keep || u == .polygon || u == .multiPolygon
  | _ => true

end GeosModel.Fix
