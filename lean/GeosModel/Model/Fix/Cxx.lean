import GeosModel.Model.Fix.Dispatch
/-!
# C17 — the vocabulary the regenerated `GeometryFixer` / `MakeValid` decision functions are stated in

`translate/specs/geometry_fixer.py` regenerates the per-type decision functions of `GeometryFixer.cpp` (and the dispatch
of `MakeValid::build`) into `Generated/GeometryFixer.lean`.  In that code every input pointer (`const Geometry*`,
`const Point*`, `const LineString*`, … and the coordinate sequences taken from them) is a `Shape` — the abstraction of
`Model/Fix/Dispatch.lean`: *what the control flow reads from the geometry* — and every result pointer
(`std::unique_ptr<Geometry>` …) is an `Option Res` (`nullptr` = `none`).  The accessors below say which field of the
shape each C++ accessor reads; the factory functions say which `Res` each `GeometryFactory::createX` call yields.
Core Lean only.
-/
namespace GeosModel.Fix

/-- `Geometry::isEmpty()` of the input geometry / element (for a polygon: of its shell, which is what `Polygon::isEmpty`
tests; a Multi* / collection is empty when it has no elements — elements of the generated inputs are never all-empty
unless the list is) -/
def Shape.emptyFlag : Shape → Bool
  | .point e _ => e
  | .line e _ => e
  | .ring e _ _ => e
  | .polygon se _ _ _ _ => se
  | .multiPoint ps => ps.isEmpty
  | .multiLine ls => ls.isEmpty
  | .multiPolygon ps _ => ps.isEmpty
  | .collection gs => gs.isEmpty

/-- `Geometry::getNumGeometries()`: 1 for an atomic geometry (also when empty), the element count otherwise -/
def Shape.numGeometries : Shape → Nat
  | .multiPoint ps => ps.length
  | .multiLine ls => ls.length
  | .multiPolygon ps _ => ps.length
  | .collection gs => gs.length
  | _ => 1

/-- `isValidPoint(pt)`: `pt->getCoordinate()->isValid()` -/
def Shape.validCoord : Shape → Bool
  | .point _ v => v
  | _ => true

/-- `RepeatedPointRemover::removeRepeatedAndInvalidPoints(seq)->size()` of the geometry's own sequence (for a polygon:
of its shell, used when a collapsed shell is re-read as a line) -/
def Shape.clean : Shape → Nat
  | .line _ c => c
  | .ring _ c _ => c
  | .polygon _ _ c _ _ => c
  | _ => 0

/-- `Polygon::getNumInteriorRing()` -/
def Shape.nHoles : Shape → Nat
  | .polygon _ _ _ n _ => n
  | _ => 0

/-- `factory->createLineString(*shell->getCoordinatesRO())`: the shell of a polygon re-read as a line string -/
def Shape.shellAsLine : Shape → Shape
  | .polygon se _ c _ _ => .line se c
  | s => s

/-- `geom->clone()` as used by `getResult` for `getNumGeometries() == 0`: same type, empty -/
def Shape.cloneEmpty (s : Shape) : Option Res := some (.atom s.ty true)

/-- `p_geom->clone()` of a non-empty valid point -/
def Shape.clonePoint (_ : Shape) : Option Res := some (.atom .point false)

/-- `uptr->isEmpty()` of a (non-null) result -/
def resIsEmpty : Option Res → Bool
  | some r => r.isEmpty
  | none => true

/-- the type id of a (non-null) result; `Ty.collection` for a collection -/
def resTy : Option Res → Ty
  | some r => r.ty
  | none => .collection

/-! ### `GeometryFactory` calls, by the kind of geometry they yield (the factory itself carries nothing) -/
abbrev Factory := Unit
def createPointEmpty (_ : Factory) : Option Res := some (.atom .point true)
/-- `createPoint(c)` for a coordinate taken from a cleaned sequence -/
def createPointAt (_ : Factory) (_ : Unit) : Option Res := some (.atom .point false)
def createLineStringEmpty (_ : Factory) : Option Res := some (.atom .lineString true)
/-- `createLineString(std::move(pts))` with `n` points -/
def createLineStringOf (_ : Factory) (n : Nat) : Option Res := some (.atom .lineString (n == 0))
def createLinearRingEmpty (_ : Factory) : Option Res := some (.atom .linearRing true)
def createLinearRingOf (_ : Factory) (n : Nat) : Option Res := some (.atom .linearRing (n == 0))
def createPolygonEmpty (_ : Factory) : Option Res := some (.atom .polygon true)
/-- `createLineString(*cs)` for the coordinate sequence of a polygon's shell: that shell as a LineString input -/
def createLineOfShell (_ : Factory) (s : Shape) : Shape := s.shellAsLine
/-- `ptsFix->getAt(0)` -/
def coordAt (_ : Nat) (_ : Nat) : Unit := ()
/-- `ring->getCoordinates()` of a ring result: its number of points is not zero exactly when the ring is not empty -/
def resCoords : Option Res → Nat
  | some r => if r.isEmpty then 0 else 4
  | none => 0

/-! ### element loops (`fixMultiPoint`, `fixMultiLineString`, `fixMultiPolygon`, `fixCollection`) -/

/-- the elements of a Multi* / collection -/
def Shape.elems : Shape → List Shape
  | .multiPoint ps => ps
  | .multiLine ls => ls
  | .multiPolygon ps _ => ps
  | .collection gs => gs
  | _ => []

/-- `p_geom->getGeometryN(i)` for `i < getNumGeometries()` -/
def Shape.elemAt (s : Shape) (i : Nat) : Shape := s.elems.getD i (.collection [])

/-- `std::vector<std::unique_ptr<T>>`: the results pushed so far (an entry could be null) -/
abbrev Vec := List (Option Res)
/-- `v.emplace_back(p.release())` -/
def Vec.push (v : Vec) (p : Option Res) : Vec := v ++ [p]
/-- `v.at(i)` (in range wherever the code uses it) -/
def Vec.at (v : Vec) (i : Nat) : Option Res := (v.getD i none)
def Vec.size (v : Vec) : Nat := v.length
def Vec.empty (v : Vec) : Bool := v.isEmpty
/-- the non-null entries; a null entry makes the factory calls below undefined behaviour: modelled as `none`, which no
bridge theorem can equate with a result -/
def Vec.results (v : Vec) : Option (List Res) := if v.all Option.isSome then some (v.filterMap id) else none

def createGeometryCollectionOf (_ : Factory) (v : Vec) : Option Res := v.results.map Res.coll
def createMultiLineStringOf (_ : Factory) (v : Vec) : Option Res := v.results.map fun rs => .atom .multiLineString rs.isEmpty
def createMultiPointOf (_ : Factory) (v : Vec) : Option Res := v.results.map fun rs => .atom .multiPoint rs.isEmpty
def createMultiPolygonEmpty (_ : Factory) : Option Res := some (.atom .multiPolygon true)

/-- a `GeometryFixer` object: the geometry it was built for and its keep-collapsed flag (`false` after construction: checked
against the header by the translator on every run) -/
abbrev Fixer := Shape × Bool
def Fixer.mk' (g : Shape) : Fixer := (g, false)
def Fixer.setKeepCollapsed (f : Fixer) (k : Bool) : Fixer := (f.1, k)

def Shape.isPointLike : Shape → Bool | .point .. => true | _ => false
def Shape.isPolygonLike : Shape → Bool | .polygon .. => true | _ => false

/-! ### `MakeValid::build` (linework method): which routine handles which input -/
inductive Route where
  | clone | line | multiLine | poly | collection
deriving DecidableEq, Repr, Inhabited

/-- the linework method's dispatch: a valid input is cloned; an invalid one is repaired by type; invalid inputs of the
remaining types (Point, MultiPoint, LinearRing and the curved types) make `build` throw `UnsupportedOperationException` -/
def buildRoute (valid : Bool) (t : Ty) : Option Route :=
  if valid then some .clone
  else match t with
    | .lineString => some .line
    | .multiLineString => some .multiLine
    | .polygon | .multiPolygon => some .poly
    | .collection => some .collection
    | .point | .multiPoint | .linearRing => none

/-- what `MakeValid::build` reads from its input: the verdict of `IsValidOp` and the type id -/
structure MVIn where
  valid : Bool
  ty : Ty
deriving Repr, DecidableEq, Inhabited

/-- `ivo.getValidationError()`: null exactly when the input is valid -/
def MVIn.validationError (g : MVIn) : Option Unit := if g.valid then none else some ()

end GeosModel.Fix
