/-!
# `GeometryFixer::fixPolygonElement`, hole phase: `classifyHoles`, `difference`, `unionGeometry`

Source: /repo/src/geom/util/GeometryFixer.cpp (the part of `fixPolygonElement` after the shell has been fixed and found
non-empty).  Areas are modelled as point sets given by a membership test: `α` is the type of points, a fixed shell is
`α → Bool`, a fixed hole is a value `h : β` with `mem h : α → Bool` (in the driver `β` is a ring and `mem` its non-zero-winding
region), `OverlayNGRobust::Difference` is set difference and `UnaryUnionOp` set union.  The one decision the code takes is
`shellPrep->intersects(hole)` per fixed hole (`meets`); everything else is the C++ control flow, branch by branch:

```
classifyHoles:  for (hole : holesFixed)  if (shellPrep->intersects(hole)) holes.push_back(hole) else shells.push_back(hole)
difference:     holes.empty() -> shell;  size 1 -> Difference(shell, holes[0]);  else Difference(shell, unionGeometry(holes))
unionGeometry:  empty -> empty polygon;  size 1 -> clone;  else UnaryUnionOp(polys).Union()
fixPolygonElement:  no interior rings -> fixShell;  polyWithHoles = difference(fixShell, holes);
                    shells.empty() -> polyWithHoles;  else shells.push_back(polyWithHoles); unionGeometry(shells)
```
Core Lean only.
-/
namespace GeosModel.Fix.Holes

variable {α β : Type}

/-- `classifyHoles`: one pass, `push_back` to one of two vectors -/
def classifyLoop (meets : β → Bool) (holesFixed : List β) : List β × List β :=
  holesFixed.foldl (fun acc h => if meets h then (acc.1 ++ [h], acc.2) else (acc.1, acc.2 ++ [h])) ([], [])

/-- `unionGeometry` on point sets -/
def unionGeometry : List (α → Bool) → α → Bool
  | [] => fun _ => false
  | [p] => p
  | ps => fun x => ps.any (· x)

/-- `difference(shell, holes)` -/
def difference (shell : α → Bool) : List (α → Bool) → α → Bool
  | [] => shell
  | [h] => fun x => shell x && !h x
  | hs => fun x => shell x && !unionGeometry hs x

/-- `fixPolygonElement` from "if no holes then done" on; `fixShell` is the non-empty fixed shell -/
def withHoles (mem : β → α → Bool) (meets : β → Bool) (fixShell : α → Bool) (holesFixed : List β) : α → Bool :=
  if holesFixed.isEmpty then fixShell
  else
    let c := classifyLoop meets holesFixed
    let polyWithHoles := difference fixShell (c.1.map mem)
    if c.2.isEmpty then polyWithHoles
    else unionGeometry (c.2.map mem ++ [polyWithHoles])

end GeosModel.Fix.Holes
