import GeosModel.Base.Kernel
import GeosModel.Model.Relate.Ref
import GeosModel.Model.Valid.Ref
import GeosModel.Model.Fix.Dispatch
/-!
# The contract of MakeValid, as exact predicates on integer geometry (C17 SPEC)

`input` and `output` are scaled to one common integer grid by the driver.  All tests are exact integer arithmetic;
"within tolerance" means a rational bound supplied by the caller.

* dimension and envelope monotonicity;
* linework method: every (finite) input vertex lies on the output — on a segment, at a point, or inside / on an area;
* structure method: membership of sample points that are not on any input segment equals
  (non-zero-winding region of the shells, plus holes that do not meet their shell) minus (holes that meet it),
  the semantics documented in GeometryFixer.h;
* the shapes (`Fix.Shape`) of inputs, for the dispatch model.
Core Lean only.
-/
namespace GeosModel.Fix
open GeosModel.Kernel GeosModel.Relate GeosModel.Valid

/-! ### flattening a `VG` -/

structure Parts where
  pts : List Pt := []
  lines : List (List Pt) := []
  polys : List (List (List Pt)) := []
deriving Repr, Inhabited

def Parts.append (a b : Parts) : Parts := ⟨a.pts ++ b.pts, a.lines ++ b.lines, a.polys ++ b.polys⟩

mutual
  /-- non-empty components by dimension (zero-length lines stay lines) -/
  def partsOf : VG → Parts
    | .point s => { pts := s.pts.take 1 }
    | .line s | .ring s => if s.pts.isEmpty then {} else { lines := [s.pts] }
    | .polygon rings => (match rings with
      | sh :: _ => if sh.pts.isEmpty then {} else { polys := [rings.map (·.pts) |>.filter (!·.isEmpty)] }
      | [] => {})
    | .multiPoint ps => { pts := ps.flatMap fun s => s.pts.take 1 }
    | .multiLine ls => { lines := (ls.map (·.pts)).filter (!·.isEmpty) }
    | .multiPolygon polys =>
      let ne := polys.filter fun rings => match rings with | sh :: _ => !sh.pts.isEmpty | [] => false
      { polys := ne.map fun rings => (rings.map (·.pts)).filter (!·.isEmpty) }
    | .collection gs => partsOfList gs
  def partsOfList : List VG → Parts
    | [] => {}
    | g :: gs => (partsOf g).append (partsOfList gs)
end

def Parts.dim (p : Parts) : Int := if !p.polys.isEmpty then 2 else if !p.lines.isEmpty then 1 else if !p.pts.isEmpty then 0 else -1

def Parts.vertices (p : Parts) : List Pt := p.pts ++ p.lines.flatten ++ p.polys.flatten.flatten

def Parts.toFlat (p : Parts) : Flat := ⟨p.pts, p.lines, p.polys⟩

/-! ### envelope -/

def envOf (l : List Pt) : Option (Int × Int × Int × Int) :=
  match l with
  | [] => none
  | a :: r => some (r.foldl (fun (e : Int × Int × Int × Int) p => (min e.1 p.x, max e.2.1 p.x, min e.2.2.1 p.y, max e.2.2.2 p.y)) (a.x, a.x, a.y, a.y))

/-- `inner ⊆ outer` up to `tol` grid units (`tol` = 0 for exact) -/
def envWithin (tol : Int) (inner outer : Option (Int × Int × Int × Int)) : Bool :=
  match inner, outer with
  | none, _ => true
  | some _, none => false
  | some i, some o => decide (o.1 - tol ≤ i.1) && decide (i.2.1 ≤ o.2.1 + tol) && decide (o.2.2.1 - tol ≤ i.2.2.1) && decide (i.2.2.2 ≤ o.2.2.2 + tol)

/-! ### vertex coverage (linework) -/

/-- squared distance test: is `v` within `tol` of the closed segment `(a,b)`? -/
def nearSeg (tol : Int) (a b v : Pt) : Bool :=
  let len2 := sqDist a b
  if len2 == 0 then decide (sqDist a v ≤ tol * tol)
  else
    let t := dot a b v
    if t ≤ 0 then decide (sqDist a v ≤ tol * tol)
    else if t ≥ len2 then decide (sqDist b v ≤ tol * tol)
    else let d := det a b v; decide (d * d ≤ tol * tol * len2)

/-- `v` lies on the geometry (within `tol` of a point or segment, or inside / on an area) -/
def covers (tol : Int) (p : Parts) (v : Pt) : Bool :=
  p.pts.any (fun q => decide (sqDist q v ≤ tol * tol)) ||
  p.lines.any (fun l => (edges l).any fun e => nearSeg tol e.1 e.2 v) ||
  p.polys.any (fun rings => locateInPolygon v rings != Loc.exterior || rings.any fun r => (edges r).any fun e => nearSeg tol e.1 e.2 v)

/-! ### winding numbers and the expected area of the structure method -/

/-- signed crossing of edge `(a,b)` by the ray from the homogeneous point `x` towards +x (half-open rule) -/
def windEdge (x : HPt) (a b : Pt) : Int :=
  let up := decide (a.y * x.w ≤ x.y) && decide (x.y < b.y * x.w)
  let down := decide (b.y * x.w ≤ x.y) && decide (x.y < a.y * x.w)
  if up then (if detH a b x > 0 then 1 else 0) else if down then (if detH a b x < 0 then -1 else 0) else 0

/-- winding number of a ring around a point not on it -/
def windH (x : HPt) (ring : List Pt) : Int := ((edges ring).map fun e => windEdge x e.1 e.2).foldl (· + ·) 0

def onAnySeg (x : HPt) (rings : List (List Pt)) : Bool := rings.any fun r => (edges r).any fun e => onSegH e.1 e.2 x

/-- in the non-zero-winding region of a ring -/
def inNZ (x : HPt) (ring : List Pt) : Bool := windH x ring != 0

/-- winding number of `ring` around the point just to the left / right of parameter `lm` of segment `s` -/
def sideWind (ring : List Pt) (s : Seg) (lm : Q) (left : Bool) : Int :=
  ((edges ring).map fun e =>
    let oa := det s.p s.q e.1; let ob := det s.p s.q e.2
    let ca := if left then decide (oa > 0) else decide (oa < 0)
    let cb := if left then decide (ob > 0) else decide (ob < 0)
    if ca == cb then 0
    else
      let num := s.dotv s.p e.1 * (oa - ob) + oa * s.dotv e.1 e.2
      let lx := Q.mk' num (s.sqLen * (oa - ob))
      if lm.lt lx then (if cb then 1 else -1) else 0).foldl (· + ·) 0

/-- does the ring enclose any non-zero-winding area?  (tested on both sides of every piece of its own arrangement) -/
def ringHasArea (ring : List Pt) : Bool :=
  let segs := segsOf ring
  segs.any fun s =>
    let ps := splitParams s segs []
    (ps.zip ps.tail).any fun (l1, l2) =>
      let lm := Q.mid l1 l2
      sideWind ring s lm true != 0 || sideWind ring s lm false != 0

/-- a piece of the common arrangement of two rings: end nodes, and whether a face next to it is in the non-zero-winding
region of the first / of the second ring -/
structure MeetCell where
  a : HPt
  b : HPt
  inS : Bool
  inH : Bool

/-- do the closed non-zero-winding regions of `shell` and `hole` have a common point?  (the regions GeometryFixer
compares: the buffer-by-zero results, which no longer contain spikes and zero-area parts of the rings) -/
def holeMeetsShell (shell hole : List Pt) : Bool :=
  let segs := (segsOf shell ++ segsOf hole).eraseDups
  let cells : List MeetCell := segs.flatMap fun s =>
    let ps := splitParams s segs []
    (ps.zip ps.tail).map fun (l1, l2) =>
      let lm := Q.mid l1 l2
      { a := s.at l1, b := s.at l2,
        inS := sideWind shell s lm true != 0 || sideWind shell s lm false != 0,
        inH := sideWind hole s lm true != 0 || sideWind hole s lm false != 0 }
  cells.any (fun c => c.inS && c.inH) ||
  (cells.flatMap fun c => [c.a, c.b]).eraseDups.any fun v =>
    let inc := cells.filter fun c => c.a == v || c.b == v
    inc.any (·.inS) && inc.any (·.inH)

/-- a polygon prepared for membership queries: its shell, whether the shell has area, the holes that meet the fixed
shell (subtracted) and those that do not (converted into polygons) -/
structure PrepPoly where
  shell : List Pt
  hasArea : Bool
  sub : List (List Pt)
  add : List (List Pt)

def prepPolygon (rings : List (List Pt)) : PrepPoly :=
  match rings with
  | [] => ⟨[], false, [], []⟩
  | shell :: holes =>
    let ha := ringHasArea shell
    if !ha then ⟨shell, false, [], []⟩        -- a collapsed shell makes the whole polygon collapse, holes are ignored
    else ⟨shell, true, holes.filter (holeMeetsShell shell), holes.filter (fun h => !holeMeetsShell shell h)⟩

/-- expected membership of a sample in the fixed polygon -/
def expectedInPrep (x : HPt) (p : PrepPoly) : Bool :=
  p.hasArea && ((inNZ x p.shell && !(p.sub.any (inNZ x))) || p.add.any (inNZ x))

def expectedIn (x : HPt) (polys : List PrepPoly) : Bool := polys.any (expectedInPrep x)

/-- actual membership in valid output polygons (even–odd) -/
def actualIn (x : HPt) (polys : List (List (List Pt))) : Bool := polys.any (inPolyH x)

/-- `n × n` sample points spread over an envelope, as homogeneous points -/
def samples (n : Nat) (e : Int × Int × Int × Int) : List HPt :=
  let w : Int := 2 * n
  (List.range n).flatMap fun (i : Nat) => (List.range n).map fun (j : Nat) =>
    HPt.norm ⟨e.1 * w + (e.2.1 - e.1) * (2 * (i : Int) + 1), e.2.2.1 * w + (e.2.2.2 - e.2.2.1) * (2 * (j : Int) + 1), w⟩

/-- first sample (not on an input ring) where expected and actual area membership differ -/
def areaMismatch (n : Nat) (inPolys outPolys : List (List (List Pt))) : Option HPt :=
  match envOf (inPolys.flatten.flatten) with
  | none => none
  | some e =>
    let preps := inPolys.map prepPolygon
    (samples n e).find? fun x =>
      !onAnySeg x inPolys.flatten && !onAnySeg x outPolys.flatten && expectedIn x preps != actualIn x outPolys

/-! ### shapes for the dispatch model -/

/-- points left by `removeRepeatedAndInvalidPoints`: drop non-finite (flagged) points, then consecutive repeats -/
def cleanSeq (pts : List Pt) (finite : List Bool) : List Pt :=
  dedup ((pts.zip finite).filterMap fun (p, f) => if f then some p else none)

end GeosModel.Fix
